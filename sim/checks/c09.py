"""C09 - database operations are atomic under statement failures and process death (DESIGN 4.4).

Level: fault enumeration.  For every sampled (prior content, write operation W) the
check enumerates EVERY intercepted event of W (SQL statements, commit, close) x every
fault kind of the property's list, and every crash point it can name:
  L1  statement k raises (5 error kinds, before/after really executing it); commit raises
  L2  os._exit(137) before/after every statement, before/after commit, before/after close
  L3  _exit(137) inside libsqlite3 immediately before the n-th file-modifying system call
      (journal writes, fsyncs, database page writes, the journal unlink = commit point)
Oracle: all-or-nothing dump comparison, swallowed faults, repeatability.
"""
import copy
import ctypes
import json
import os
import random
import shutil

from sim.checks import c08
from sim.core import digest as dg
from sim.core import env
from sim.core.proc import HarnessError, Session, fork_call
from sim.models import refstore as rs
from sim.seams import sqlseam

PROP = "C09"
LEVEL = "fault_enumeration"
BATCH = 2
NEEDS_SHIM = True
ASSUMPTIONS = [
    "process death, not power loss: after the kill the page cache survives, files are compared as written "
    "(lost or torn un-synced writes are not modelled)",
    "one fault per trial; two concurrent writers are out of scope",
    "a full disk is modelled as the OperationalError SQLite would report, not by filling tmpfs",
    "clause 'everything stored before remains retrievable' is decided by whole-file dump equality with the state "
    "before or after the golden run (retrieval by a fresh session is a function of the file) plus one retrieval "
    "audit of both states per case",
    "fresh-session retries after process death are memoised per resulting file state (dump digest)",
]

L1_KINDS = [
    ("raise:IntegrityError:injected constraint failure", ("before", "after")),
    ("raise:InterfaceError:injected interface error", ("before", "after")),
    ("raise:OperationalError:disk I/O error", ("before", "after")),
    ("raise:OperationalError:database or disk is full", ("before",)),
    ("raise:DatabaseError:injected database error", ("before", "after")),
]
# a statement can also be rejected by the sqlite3 module itself, with exceptions that are not sqlite3.IntegrityError /
# InterfaceError / OperationalError (and partly not sqlite3.Error at all); one of these per statement, in rotation
L1_ROTATING = [
    "raise:ProgrammingError:Error binding parameter 1: type is not supported",
    "raise:OverflowError:Python int too large to convert to SQLite INTEGER",
    "raise:DataError:string or blob too big",
    "raise:MemoryError:",
    "raise:ValueError:the query contains a null character",
    "raise:NotSupportedError:injected",
    "raise:TypeError:injected",
]
SYSCALL_KIND = {1: "pwrite", 2: "write", 3: "fsync", 4: "unlink", 5: "ftruncate", 6: "create", 7: "rename"}


def tier_runs(tier):
    return 112 if tier == "quick" else 2400     # 7 full rotations through the 16 kinds of write operation


def tier_budget_s(tier):
    return 900 if tier == "quick" else 9000


def worker_init(ctx):
    c08.worker_init(ctx)
    ctx.memo["shim"] = bool(ctx.options.get("shim")) and os.environ.get("LD_PRELOAD", "") != ""


# ----------------------------------------------------------------------------- case generation

def gen_case(rng, tier):
    template = rng.choices(["bare", "full"], [80, 20])[0]
    cfg = {"files": {"F1": template}, "n_sessions": 1, "open_domain": False, "weights": {
        "adsorbate_to_db": 14, "material_to_db": 14, "ptype_to_db": 10, "isotherm_to_db": 40,
        "adsorbate_delete_db": 3, "material_delete_db": 3, "ptype_delete_db": 3, "isotherm_delete_db": 4,
        "adsorbates_from_db": 0, "materials_from_db": 0, "ptypes_from_db": 0, "isotherms_from_db": 0}}
    n_prefix = rng.randint(0, 6)
    return {"template": template, "cfg": cfg, "n_prefix": n_prefix, "warm": rng.random() < 0.5,
            "l3": True if tier == "thorough" else None}


# Every kind of public write operation appears in a fixed rotation over the case index (coverage does not depend on
# luck); the weights are the multiplicities in the cycle.
KIND_CYCLE = ["iso_up_auto", "mat_del", "ads_over", "iso_del", "iso_up_auto", "mat_over", "ads_del", "iso_up",
              "iso_up_auto", "mat_up", "ads_up", "ptype_up", "iso_up_auto", "ptype_over", "ptype_del", "iso_del"]


def setup_ops_for(kind, rng, fm):
    """Prior content that makes the operation of this kind meaningful (an item WITH properties to delete/overwrite)."""
    ops = []
    base = {"db": "F1", "session": "A"}
    if kind in ("mat_del", "mat_over") and not any(fm.prop_names(c) and not fm.refs_material(n) for n, c in fm.mats.items()):
        name = rng.choice(["VfM2", "VfM3"])
        if name not in fm.mats:
            ops.append(dict(base, op="material_to_db", mat=dict(name=name, **c08.UMATS[name][0]), overwrite=False,
                            autoinsert_properties=True))
    if kind in ("ads_del", "ads_over") and not any(n in fm.ads and not fm.refs_adsorbate(n) for n in c08.UADS):
        name = rng.choice(["VfAlpha", "VfGamma"])
        ops.append(dict(base, op="adsorbate_to_db", ads=dict(name=name, **c08.UADS[name][0]), overwrite=False,
                        autoinsert_properties=True))
    if kind == "iso_del" and not fm.isos:
        ops.append(dict(base, op="isotherm_to_db", iso=c08._iso_spec(rng, {"open_domain": False}), autoinsert_material=True,
                        autoinsert_adsorbate=True, via="function"))
    if kind in ("ptype_up", "ptype_over", "ptype_del"):
        # the type table the operation works on already holds other entries (they must survive whatever happens)
        t = rng.choice(["adsorbate", "material", "isotherm", "isotype"])
        HINTS["table"] = t
        for name in rng.sample(c08.PTYPES[t][:3], 2):
            if name not in fm.ptypes[t]:
                td = {"type": name, "description": "prior entry"}
                if t != "isotype":
                    td["unit"] = "nm"
                ops.append(dict(base, op="ptype_to_db", table=t, type_dict=td, overwrite=False))
    return ops


HINTS = {}


def gen_w(rng, cfg, fm, favourites, kind=None):
    """The write operation under test, biased towards operations that do change the file."""
    kind = kind or rng.choices(
        ["iso_up_auto", "iso_up", "iso_del", "ads_up", "ads_over", "ads_del", "mat_up", "mat_over", "mat_del",
         "ptype_up", "ptype_over", "ptype_del"],
        [22, 8, 10, 9, 8, 7, 8, 8, 8, 4, 3, 3])[0]
    # mostly operations that can succeed on this prior content (about one case in eight is a deliberate refusal)
    forced = kind
    if rng.random() < 0.875:
        for _ in range(20):
            feasible = {"iso_del": bool(fm.isos), "ads_over": any(n in fm.ads for n in c08.UADS),
                        "ads_del": any(n in fm.ads and not fm.refs_adsorbate(n) for n in c08.UNIVERSE["ads"]),
                        "mat_over": bool(fm.mats), "mat_del": any(not fm.refs_material(n) for n in fm.mats),
                        "ptype_over": True, "ptype_del": True}.get(kind, True)
            if feasible:
                break
            kind = rng.choice(["iso_up_auto", "iso_up_auto", "ads_up", "mat_up", "iso_del", "ads_over", "mat_over", "ptype_up"])
    op = {"db": "F1", "session": "A"}
    if kind in ("iso_up_auto", "iso_up"):
        op.update(op="isotherm_to_db", iso=c08._iso_spec(rng, cfg), via=rng.choice(["function", "method"]))
        if kind == "iso_up_auto":
            op.update(autoinsert_material=True, autoinsert_adsorbate=True)
            # prefer material/adsorbate that are not yet in the file: longest transactions
            absent_m = [m for m in c08.UMATS if m not in fm.mats]
            if absent_m:
                m = rng.choice(absent_m)
                op["iso"]["material"] = c08._mat_spec(rng, m)
            absent_a = [a for a in c08.UADS if a not in fm.ads]
            if absent_a and rng.random() < 0.7:
                op["iso"]["adsorbate"] = rng.choice(absent_a)
            if rng.random() < 0.12:
                # a long point isotherm (a few thousand points): code paths that treat large uploads differently
                n = rng.randint(2100, 2600)
                op["iso"].update(kind="point", pressure=[0.001 * (i + 1) for i in range(n)],
                                 loading=[0.002 * (i + 1) / (1 + 0.001 * i) for i in range(n)], branch="ads", other={})
                op["iso"].pop("model", None)
        else:
            op.update(autoinsert_material=rng.random() < 0.5, autoinsert_adsorbate=rng.random() < 0.5)
        r8 = rng.random()
        if r8 < 0.08:
            # more metadata than any bulk path's threshold
            op["iso"]["meta"] = dict(op["iso"].get("meta") or {})
            op["iso"]["meta"].update({"verif_k%03d" % i: 0.5 + i for i in range(rng.randint(101, 140))})
        elif r8 < 0.26 and op["iso"]["kind"] == "point" and len(op["iso"]["pressure"]) < 100:
            # a supplementary column in which a later reading is an object the data serialiser rejects (a failure in
            # non-SQL code between two statements)
            n = len(op["iso"]["pressure"])
            col = [0.5 * i for i in range(n)]
            col[rng.randrange(1, n)] = {"__py__": rng.choice(["bytes", "decimal"])}
            op["iso"]["other"] = dict(op["iso"].get("other") or {})
            op["iso"]["other"]["verif_obj"] = col
            op["iso"]["route"] = "frame"
        elif op["iso"]["kind"] == "point" and len(op["iso"]["pressure"]) < 100 and rng.random() < 0.4:
            # a supplementary column without a single reading (all None), or whose first readings are missing
            n = len(op["iso"]["pressure"])
            op["iso"]["other"] = dict(op["iso"].get("other") or {})
            op["iso"]["other"]["verif_gap"] = [None] * n if rng.random() < 0.6 else [None, None] + [0.5 * i for i in range(n - 2)]
            op["iso"]["route"] = "frame"
    elif kind == "iso_del":
        op.update(op="isotherm_delete_db")
        if fm.isos and rng.random() < 0.85:
            op.update(by="id", iso_id=rng.choice(sorted(fm.isos)))
        else:
            op.update(by="id", iso_id="f" * 32)
    elif kind in ("ads_up", "ads_over"):
        present = sorted(n for n in fm.ads if n in c08.UADS)
        name = None
        if kind == "ads_over" and present and rng.random() < 0.85:
            name = rng.choice(present)
        elif kind == "ads_up":
            absent = [n for n in c08.UADS if n not in fm.ads]
            name = rng.choice(absent) if absent and rng.random() < 0.85 else None
        # one case in five carries a value SQLite itself rejects at the statement that stores it (None, NaN, a list)
        op.update(op="adsorbate_to_db", ads=c08._ads_spec(rng, name, open_values=rng.random() < 0.2), overwrite=(kind == "ads_over"),
                  autoinsert_properties=rng.random() < 0.8)
        if rng.random() < 0.2:
            op["ads"]["verif_p3"] = rng.choice([None, float("nan")])     # a value the storing statement itself rejects
    elif kind == "ads_del":
        present = sorted(n for n in fm.ads if n in c08.UNIVERSE["ads"])
        free = [n for n in present if not fm.refs_adsorbate(n)]
        pick = rng.choice(free) if free and rng.random() < 0.7 else (rng.choice(present) if present else None)
        op.update(op="adsorbate_delete_db", by=rng.choice(["name", "object"]),
                  name=pick if pick and rng.random() < 0.9 else rng.choice(c08.UNIVERSE["ads"]))
    elif kind in ("mat_up", "mat_over"):
        present = sorted(fm.mats)
        name = None
        if kind == "mat_over" and present and rng.random() < 0.85:
            name = rng.choice(present)
        elif kind == "mat_up":
            absent = [n for n in c08.UMATS if n not in fm.mats]
            name = rng.choice(absent) if absent and rng.random() < 0.85 else None
        op.update(op="material_to_db", mat=c08._mat_spec(rng, name, open_values=rng.random() < 0.2), overwrite=(kind == "mat_over"),
                  autoinsert_properties=rng.random() < 0.8)
        if rng.random() < 0.2:
            op["mat"]["verif_m1"] = rng.choice([None, float("nan")])
    elif kind == "mat_del":
        present = sorted(fm.mats)
        # prefer items that have properties (several rows to delete) and are not referenced (the deletion can succeed)
        rich = [n for n in present if fm.prop_names(fm.mats[n]) and not fm.refs_material(n)]
        pick = rng.choice(rich) if rich and rng.random() < 0.7 else (rng.choice(present) if present else None)
        op.update(op="material_delete_db", by=rng.choice(["name", "object"]),
                  name=pick if pick and rng.random() < 0.9 else rng.choice(c08.UNIVERSE["mats"]))
    else:
        t = HINTS.pop("table", None) or rng.choice(["adsorbate", "material", "isotherm", "isotype"])
        present = sorted(fm.ptypes[t])
        if kind == "ptype_del":
            op.update(op="ptype_delete_db", table=t,
                      type=rng.choice(present) if present and rng.random() < 0.8 else rng.choice(c08.PTYPES[t]))
        else:
            over = kind == "ptype_over"
            typ = rng.choice(present) if (over and present and rng.random() < 0.85) else rng.choice(c08.PTYPES[t])
            td = {"type": typ, "description": rng.choice(["first description", "another text"])}
            if t != "isotype":
                td["unit"] = rng.choice(["g/mol", "nm", "K"])
            op.update(op="ptype_to_db", table=t, type_dict=td, overwrite=over)
    return op


# ----------------------------------------------------------------------------- trial children

_shim = None


def shim():
    global _shim
    if _shim is None:
        path = os.environ.get("VERIF_SHIM") or env.SHIM_PATH
        _shim = ctypes.CDLL(path)
        _shim.verif_watch.argtypes = [ctypes.c_char_p]
        _shim.verif_arm.argtypes = [ctypes.c_long]
        _shim.verif_count.restype = ctypes.c_long
        _shim.verif_kind.argtypes = [ctypes.c_long]
        _shim.verif_kind.restype = ctypes.c_int
    return _shim


def _trial_child(w, dbmap, plan, arm, watch, retry, twice, known_shas=()):
    """Runs in a fork of the trial parent.  Executes W with the fault armed; optionally retries.

    When a retry follows in the same process, the state between the two attempts is audited here, through
    an independent un-instrumented connection (the pyGAPS connection is closed by then)."""
    from sim.checks import storeops
    state = {}
    sqlseam.reset(plan)
    sh = shim() if watch else None
    if sh is not None:
        sh.verif_watch(watch.encode())
        if arm:
            sh.verif_arm(arm)
    out = {}

    def audit_and_retry():
        """Audit the file as the faulted attempt left it, then issue the same call again, fault-free."""
        got = {"events": [list(e) for e in sqlseam.events()], "fired": sqlseam.fired(),
               "fetches": [list(f) for f in sqlseam.fetches()]}
        if sh is not None:
            n = sh.verif_count()
            got["syscalls"] = [sh.verif_kind(i) for i in range(1, min(n, 4000) + 1)]
            sh.verif_unwatch()
        mid = c08.dump_db(dbmap[w["db"]])
        got["mid_sha"] = c08.dump_sha(mid)
        got["mid_clean"] = c08.dump_clean(mid)
        got["mid_stray"] = sorted(n for n in os.listdir(os.path.dirname(dbmap[w["db"]]))
                                  if n != os.path.basename(dbmap[w["db"]]))
        if got["mid_sha"] not in known_shas or not got["mid_clean"]:
            got["mid_dump"] = mid
        sqlseam.reset(None)
        got["r2"] = _slim(storeops.exec_op(w, dbmap, state))
        return got

    want_retry = retry or twice
    # a failed attempt is retried by a caller who is still inside its `except` block (the exception, and whatever
    # it keeps alive, still exist); a successful one is simply followed by the second call
    try:
        r1 = storeops.exec_op(w, dbmap, state, on_failure=(audit_and_retry if want_retry else None))
    except BaseException:      # KeyboardInterrupt / SystemExit travelled through the library: the process ends now
        os._exit(137)
    out["r1"] = _slim(r1)
    if plan is None and not arm:
        out["uploaded"] = r1.get("uploaded")     # fault-free run: what the caller handed over
    if "held" in r1:
        out.update(r1["held"])
        out["retried_holding_exception"] = True
    else:
        if want_retry:
            out.update(audit_and_retry())
        else:
            out["events"] = [list(e) for e in sqlseam.events()]
            out["fired"] = sqlseam.fired()
            out["fetches"] = [list(f) for f in sqlseam.fetches()]
            if sh is not None:
                n = sh.verif_count()
                out["syscalls"] = [sh.verif_kind(i) for i in range(1, min(n, 4000) + 1)]
                sh.verif_unwatch()
    return out


def _library_reads(path):
    """Fresh session: read everything through the public retrieval functions (first access after a crash)."""
    from sim.checks import storeops
    out = []
    for op in ({"op": "isotherms_from_db", "db": "F1", "criteria": {}}, {"op": "materials_from_db", "db": "F1"},
               {"op": "adsorbates_from_db", "db": "F1"}):
        r = storeops.exec_op(op, {"F1": path}, {})
        out.append([op["op"], r["outcome"], r.get("msg")])
    return out


def _slim(r):
    out = {"outcome": r["outcome"], "msg": r.get("msg")}
    u = r.get("uploaded")
    if isinstance(u, dict) and "iso_id" in u:
        out["uploaded_id"] = u["iso_id"]
    elif u is not None:
        out["uploaded_id"] = dg.sha(u)[:16]
    return out


def _parent_factory(dbmap_prefix):
    """Trial parent session: runs the prefix, then forks one child per trial."""
    def factory():
        from sim.checks import storeops
        state = {}

        def handler(msg):
            if msg["cmd"] == "op":
                return storeops.exec_op(msg["op"], dbmap_prefix, state)
            if msg["cmd"] == "trial":
                def while_zombie(pid, got_data):
                    """The writer is dead but not yet reaped: somebody else already repeats the operation (on a copy of
                    everything the dead process left next to the database)."""
                    path = msg["dbmap"][msg["w"]["db"]]
                    d = os.path.dirname(path)
                    if got_data or all(n == os.path.basename(path) for n in os.listdir(d)):
                        return None
                    z = d + "-zombie"
                    shutil.rmtree(z, ignore_errors=True)
                    shutil.copytree(d, z)
                    zpath = os.path.join(z, os.path.basename(path))
                    rr = fork_call(_trial_child, (msg["w"], {msg["w"]["db"]: zpath}, None, None, None, False, False), timeout=120)
                    out = {"r1": rr["result"]["r1"] if rr["result"] else None}
                    try:
                        dz = c08.dump_db(zpath)
                        out["sha"], out["clean"] = c08.dump_sha(dz), c08.dump_clean(dz)
                    except Exception as e:
                        out["sha"], out["clean"], out["dump_error"] = None, False, type(e).__name__
                    shutil.rmtree(z, ignore_errors=True)
                    return out
                r = fork_call(_trial_child, (msg["w"], msg["dbmap"], msg.get("plan"), msg.get("arm"), msg.get("watch"),
                                             msg.get("retry", False), msg.get("twice", False),
                                             tuple(msg.get("known_shas", ()))), timeout=120,
                              before_reap=(while_zombie if msg.get("zombie_retry") else None))
                return r
            raise ValueError(msg["cmd"])
        return handler
    return factory


# ----------------------------------------------------------------------------- the case

class Case:
    def __init__(self, ctx, case, rundir):
        self.ctx = ctx
        self.case = case
        self.rundir = rundir
        self.tpl = ctx.memo["templates"][case["template"]]
        self.pre_path = os.path.join(rundir, "pre.db")
        self.trial_dir = os.path.join(rundir, "t")
        os.makedirs(self.trial_dir)
        self.trial_path = os.path.join(self.trial_dir, "trial.db")
        self.viol = None
        self.counters = {}
        self.tuples = set()
        self.events = []
        self.use_l3 = bool(ctx.memo.get("shim"))

    def count(self, k, n=1):
        self.counters[k] = self.counters.get(k, 0) + n

    def fail(self, kind, signature, detail):
        if self.viol is None:
            self.viol = {"kind": "C09/" + kind, "signature": "C09/" + kind + " " + signature, "detail": detail}

    def fresh_trial_file(self, src=None):
        for name in os.listdir(self.trial_dir):
            os.unlink(os.path.join(self.trial_dir, name))
        shutil.copyfile(src or self.pre_path, self.trial_path)

    def audit(self):
        """Raw connection: SQLite's own hot-journal recovery happens here, as for the next user."""
        d = c08.dump_db(self.trial_path)
        # a left-over rollback journal that is not hot is ordinary SQLite behaviour (the next writer reuses it)
        stray = sorted(n for n in os.listdir(self.trial_dir) if n not in ("trial.db", "trial.db-journal"))
        return d, stray

    # ------------------------------------------------------------------
    def run(self, w, prefix):
        case = self.case
        shutil.copyfile(self.tpl, self.pre_path)
        parent = Session(_parent_factory({"F1": self.pre_path}), name="P")
        try:
            for op in prefix:
                parent.call({"cmd": "op", "op": op})
            if not case["warm"]:
                parent.kill()
                parent = Session(_parent_factory({"F1": self.pre_path}), name="P0")
            self.parent = parent
            self._run_trials(w)
        finally:
            parent.kill()

    def trial(self, w, plan=None, arm=None, retry=False, twice=False, src=None, known_shas=()):
        self.fresh_trial_file(src)
        r = self.parent.call({"cmd": "trial", "w": w, "dbmap": {"F1": self.trial_path}, "plan": plan, "arm": arm,
                              "watch": (self.trial_dir if self.use_l3 else None), "retry": retry, "twice": twice,
                              "known_shas": list(known_shas), "zombie_retry": plan is not None or arm is not None}, timeout=240)
        self.last_lib = None
        if r["result"] is None and any(n != "trial.db" for n in os.listdir(self.trial_dir)):
            # the process died and left more than the database behind (a journal): the NEXT USER'S first access is
            # through the library, not through this harness - replay that on a copy before the raw audit touches it
            self.last_lib = self.library_first_access()
        d, stray = self.audit()
        return r, d, stray

    def library_first_access(self):
        lib_dir = os.path.join(self.rundir, "libfirst")
        shutil.rmtree(lib_dir, ignore_errors=True)
        shutil.copytree(self.trial_dir, lib_dir)
        path = os.path.join(lib_dir, "trial.db")
        r = fork_call(_library_reads, (path,), timeout=120)
        out = {"reads": r["result"], "died": r["result"] is None}
        try:
            d = c08.dump_db(path)
            out["sha"], out["clean"], out["dump"] = c08.dump_sha(d), c08.dump_clean(d), d
        except Exception as e:  # e.g. "database disk image is malformed"
            out["sha"], out["clean"], out["dump"], out["dump_error"] = None, False, None, type(e).__name__
        shutil.rmtree(lib_dir, ignore_errors=True)
        return out

    def fresh_retry(self, w, state_path):
        """Retry W once in a fresh session (fork of the pristine worker) on a copy of state_path."""
        self.fresh_trial_file(state_path)
        r = fork_call(_trial_child, (w, {"F1": self.trial_path}, None, None, None, False, False), timeout=120)
        if r["result"] is None:
            raise HarnessError("fresh retry child died: " + json.dumps(r)[:300])
        d, _ = self.audit()
        return r["result"]["r1"], d

    def _run_trials(self, w):
        wclass = c08.Run.describe(None, w)
        self.wclass = wclass
        D_pre = c08.dump_db(self.pre_path)
        if not c08.dump_clean(D_pre):
            raise HarnessError("prior content not clean")
        sha_pre = c08.dump_sha(D_pre)
        # ---- golden trials
        g1, D_post, stray = self.trial(w)
        if g1["result"] is None:
            raise HarnessError("golden child died: " + json.dumps(g1)[:400])
        post_path = os.path.join(self.rundir, "post.db")
        shutil.copyfile(self.trial_path, post_path)   # the audit connection has closed: the file is quiescent
        g2, D_post2, _ = self.trial(w, twice=True)
        if g2["result"] is None or g2["result"]["r1"] != g1["result"]["r1"] or g2["result"]["events"] != g1["result"]["events"]:
            raise HarnessError("golden run is not deterministic")
        gold = g1["result"]
        events = gold["events"]
        sha_post = c08.dump_sha(D_post)
        sha_post2 = c08.dump_sha(D_post2)
        out1, out2 = gold["r1"], g2["result"]["r2"]
        changes = sha_post != sha_pre
        if stray:
            self.count("probe:stray-files-next-to-database", len(stray))   # not required by the property: counted only
        if not c08.dump_clean(D_post):
            self.fail("integrity", f"w={wclass} layer=golden", {"integrity": D_post["integrity"][:3], "fk": D_post["fk"][:3]})
            return
        if out1["outcome"] != "ok" and changes:
            self.fail("refusal-changed-file", f"w={wclass} layer=golden outcome={out1['outcome']}", {})
            return
        n_exec = sum(1 for e in events if e[0] == "exec")
        syscalls = gold.get("syscalls") or []
        self.count("cases")
        self.count("cases:changing" if changes else "cases:refused-or-noop")
        self.count("case-op:" + w["op"])
        self.count("statements", n_exec)
        self.events.append(["golden", wclass, out1["outcome"], n_exec, len(syscalls)])
        # the two reference states as files, for fresh-session retries
        ref = {"pre": (sha_pre, self.pre_path), "post": (sha_post, post_path)}
        fresh_memo = {}

        def fresh_expect(state):
            if state not in fresh_memo:
                r, d = self.fresh_retry(w, ref[state][1])
                fresh_memo[state] = (r, c08.dump_sha(d), c08.dump_clean(d))
            return fresh_memo[state]

        # per-case retrieval audit of both states from a fresh session ("everything stored before remains retrievable")
        self._retrieval_audit(w, ref, out1, gold.get("uploaded"))
        if self.viol:
            return

        # ---- the same operation inside a transaction the CALLER owns (the `cursor=` route the library itself uses for
        # nested calls): nothing may be durable before the caller commits, nothing may remain after the caller rolls back
        if w["op"].endswith("_to_db") or w["op"].endswith("_delete_db"):
            for how in ("rollback", "commit"):
                rc, dc, _ = self.trial(dict(w, caller_txn=how))
                if rc["result"] is None:
                    raise HarnessError("caller-transaction child died: " + json.dumps(rc)[:300])
                oc = rc["result"]["r1"]["outcome"]
                shac = c08.dump_sha(dc)
                self.count("trials:caller-owned-transaction")
                self.events.append(["caller-txn", how, oc, "pre" if shac == sha_pre else "post" if shac == sha_post else "other"])
                if how == "rollback" and shac != sha_pre:
                    self.fail("caller-rollback-left-changes", f"w={wclass} outcome={'ok' if oc == 'ok' else 'refused'} "
                              f"tables={_half_sig(D_pre, D_post, dc)}", {"outcome": oc})
                    return
                if how == "commit" and oc == "ok" and out1["outcome"] == "ok" and shac != sha_post:
                    self.fail("caller-commit-incomplete", f"w={wclass} tables={_half_sig(D_pre, D_post, dc)}", {})
                    return
                if how == "commit" and oc != "ok" and shac != sha_pre:
                    self.fail("caller-transaction-partly-committed", f"w={wclass} outcome=refused tables={_half_sig(D_pre, D_post, dc)}", {})
                    return
        # ---- enumerate
        plans = []
        for i, ev in enumerate(events, start=1):
            kind, head = ev
            if kind == "exec":
                for action, whens in L1_KINDS:
                    for when in whens:
                        plans.append(("L1", {"event": i, "when": when, "action": action, "expect_kind": "exec"}, None))
                rot = L1_ROTATING[(i + self.case.get("index", 0)) % len(L1_ROTATING)]
                for when in ("before", "after"):
                    plans.append(("L1", {"event": i, "when": when, "action": rot, "expect_kind": "exec"}, None))
                for when in ("before", "after"):
                    plans.append(("L2", {"event": i, "when": when, "action": "exit", "expect_kind": "exec"}, None))
                # orderly death: an exception that is not an Exception (signal handler), `finally` blocks run
                plans.append(("L2", {"event": i, "when": "before", "action": "raise:" + ("SystemExit" if i % 2 else "KeyboardInterrupt"),
                              "expect_kind": "exec"}, None))
                plans.append(("L2", {"event": i, "when": "after", "action": "raise:" + ("KeyboardInterrupt" if i % 2 else "SystemExit"),
                              "expect_kind": "exec"}, None))
            elif kind == "commit":
                plans.append(("L1", {"event": i, "when": "before", "action": "raise:OperationalError:database is locked", "sticky": True,
                                     "expect_kind": "commit"}, None))
                for when in ("before", "after"):
                    plans.append(("L1", {"event": i, "when": when, "action": "raise:OperationalError:disk I/O error",
                                         "expect_kind": "commit"}, None))
                    plans.append(("L2", {"event": i, "when": when, "action": "exit", "expect_kind": "commit"}, None))
            elif kind == "close":
                for when in ("before", "after"):
                    plans.append(("L2", {"event": i, "when": when, "action": "exit", "expect_kind": "close"}, None))
        # rows read from a result: the storage layer reports its error for a SELECT while the rows are fetched
        self.fetches = gold.get("fetches") or []
        for n in range(1, len(self.fetches) + 1):
            plans.append(("L1", {"fetch": n, "action": "raise:OperationalError:disk I/O error"}, None))
            if n % 2 == self.case.get("index", 0) % 2:
                plans.append(("L1", {"fetch": n, "action": "raise:DatabaseError:database disk image is malformed"}, None))
        do_l3 = self.use_l3 and (self.case.get("l3") is True or (self.case.get("l3") is None and self.case.get("l3_pick", False)))
        if do_l3:
            for n in range(1, len(syscalls) + 1):
                plans.append(("L3", None, n))
        for layer, plan, arm in plans:
            if self.viol is not None:
                break
            self._one_trial(w, layer, plan, arm, events, syscalls, sha_pre, sha_post, sha_post2, out1, out2, D_pre, D_post,
                            fresh_expect, changes)

    def _retrieval_audit(self, w, ref, out1, uploaded=None):
        """Fresh session reads both reference states; prior items must be identical in both unless W targets them."""
        reads = {}
        for state in ("pre", "post"):
            self.fresh_trial_file(ref[state][1])
            s = Session(c08._session_factory({"F1": self.trial_path}), name="aud")
            try:
                got = {}
                for op in ({"op": "adsorbates_from_db", "db": "F1"}, {"op": "materials_from_db", "db": "F1"},
                           {"op": "isotherms_from_db", "db": "F1", "criteria": {}}):
                    r = s.call({"cmd": "op", "op": op})
                    if r["outcome"] != "ok":
                        self.fail("prior-content-not-retrievable", f"w={self.wclass} state={state} op={op['op']} outcome={r['outcome']}",
                                  {"msg": r.get("msg")})
                        return
                    got[op["op"]] = r["value"]
                reads[state] = got
            finally:
                s.kill()
        if out1["outcome"] != "ok":
            return
        # "the complete effect of the operation": an upload that reported success left the item as it was handed over -
        # never one with only some of its properties, columns or points (the same equality the keyed-collection model
        # of C08 uses: exact, numbers by value)
        if uploaded is not None and w["op"] in ("adsorbate_to_db", "material_to_db", "isotherm_to_db"):
            self.count("probe:complete-effect-checked")
            if w["op"] == "isotherm_to_db":
                n_pre = sum(1 for c in reads["pre"]["isotherms_from_db"] if c["loose_na"] == uploaded["loose_na"])
                n_post = sum(1 for c in reads["post"]["isotherms_from_db"] if c["loose_na"] == uploaded["loose_na"])
                if n_post != n_pre + 1:
                    near = [c for c in reads["post"]["isotherms_from_db"] if c["mname"] == uploaded["mname"] and c["type"] == uploaded["type"]]
                    what = "data" if any(dg.diff(c["d"], uploaded["d"]) is None for c in near) else "content"
                    self.fail("incomplete-effect", f"w={self.wclass} table=isotherms differs={what}", {"uploaded_id": uploaded.get("iso_id")})
                    return
            else:
                opn = "adsorbates_from_db" if w["op"].startswith("ads") else "materials_from_db"
                name = rs._cd(uploaded)["name"][1]
                got = [c for c in reads["post"][opn] if rs._cd(c)["name"][1] == name]
                if len(got) != 1 or dg.diff(got[0], uploaded, rtol=0.0, loose_numbers=True) is not None:
                    gd, wd = (rs._cd(got[0]) if got else {}), rs._cd(uploaded)
                    fields = sorted(x for x in set(gd) | set(wd) if x not in gd or x not in wd
                                    or dg.diff(gd[x], wd[x], rtol=0.0, loose_numbers=True) is not None)
                    self.fail("incomplete-effect", f"w={self.wclass} table={opn.split('_')[0]} fields={','.join(fields)[:60]}", {})
                    return
        # items present before and not named by W must read back identically afterwards
        target = self._target_names(w)
        for opn, keyf in (("adsorbates_from_db", lambda c: rs._cd(c)["name"][1]), ("materials_from_db", lambda c: rs._cd(c)["name"][1]),
                          # an isotherm's identifier covers the properties of its material, which W may legitimately
                          # overwrite: prior isotherms are matched by their own content (everything but those properties)
                          ("isotherms_from_db", lambda c: c["loose"])):
            pre = {keyf(c): c for c in reads["pre"][opn]}
            post = {keyf(c): c for c in reads["post"][opn]}
            # a successful isotherm deletion removes exactly one isotherm; which retrieved object that is cannot be
            # told from W's identifier when the uploader described its material differently from the file
            allowance = 1 if (opn == "isotherms_from_db" and w["op"] == "isotherm_delete_db"
                              and len(reads["pre"][opn]) - len(reads["post"][opn]) == 1) else 0
            for k, c in pre.items():
                if k in target or (isinstance(c, dict) and c.get("iso_id") in target):
                    continue
                if k not in post and allowance:
                    allowance -= 1
                    continue
                if k not in post:
                    self.fail("prior-content-lost", f"w={self.wclass} table={opn.split('_')[0]}", {"key": k})
                    return
                if opn != "isotherms_from_db" and dg.diff(c, post[k]) is not None:
                    self.fail("prior-content-changed", f"w={self.wclass} table={opn.split('_')[0]}", {"key": k})
                    return
                if opn == "isotherms_from_db" and dg.diff([c["d"], c["data"]], [post[k]["d"], post[k]["data"]]) is not None:
                    self.fail("prior-content-changed", f"w={self.wclass} table=isotherms", {"key": k})
                    return

    @staticmethod
    def _target_names(w):
        t = set()
        for k in ("name", "iso_id"):
            if k in w:
                t.add(w[k])
        for k in ("ads", "mat"):
            if k in w:
                t.add(w[k]["name"])
        if "iso" in w:
            m = w["iso"]["material"]
            t.add(m["name"] if isinstance(m, dict) else m)
            t.add(w["iso"]["adsorbate"])
            t.update({"nitrogen", "carbon dioxide", "methane"} if w["iso"]["adsorbate"] in ("N2", "CO2", "CH4") else set())
        return t

    def _one_trial(self, w, layer, plan, arm, events, syscalls, sha_pre, sha_post, sha_post2, out1, out2, D_pre, D_post,
                   fresh_expect, changes):
        wclass = self.wclass
        r, d, stray = self.trial(w, plan=plan, arm=arm, retry=(layer == "L1"), known_shas=(sha_pre, sha_post))
        self.count("trials")
        self.count("trials:" + layer)
        res = r["result"]
        died = res is None
        d_final = d
        if layer == "L1" and not died:
            # the state right after the faulted attempt was audited inside the child, before its retry
            d = res.get("mid_dump") or (D_pre if res["mid_sha"] == sha_pre else D_post)
            stray = [n for n in res["mid_stray"] if n != "trial.db-journal"]
        if layer == "L1" and "fetch" in plan:
            fe = self.fetches[plan["fetch"] - 1]
            ev = events[fe[0] - 1] if fe[0] else ["none", ""]
            pos = f"fetch:{fe[1]}:{ev[1]}"
            fkind = plan["action"].split(":")[1]
            where = f"layer=L1 at={pos} fault={fkind}"
        elif layer == "L1":
            ev = events[plan["event"] - 1]
            pos = f"{ev[0]}:{ev[1]}:{plan['when']}"
            fkind = plan["action"].split(":")[1]
            where = f"layer=L1 at={pos} fault={fkind}"
        elif layer == "L2":
            ev = events[plan["event"] - 1]
            pos = f"{ev[0]}:{ev[1]}:{plan['when']}"
            fkind = "exit" if plan["action"] == "exit" else plan["action"].split(":")[1]
            where = f"layer=L2 at={pos}" + ("" if fkind == "exit" else f" death={fkind}")
        else:
            sk = SYSCALL_KIND.get(syscalls[arm - 1], "?")
            from_end = len(syscalls) - arm
            pos = f"{sk}:-{from_end}"
            fkind = "exit-in-sqlite"
            where = f"layer=L3 at={sk} from_end={min(from_end, 9)}"
        # did the fault fire?
        if layer == "L1":
            if died:
                raise HarnessError(f"L1 trial child died unexpectedly: {json.dumps(r)[:400]}")
            fired = res.get("fired")
            if not fired or "mismatch" in (fired or {}):
                self.count("not-fired")
                fired = None
        else:
            if not died:
                self.count("not-fired")
                fired = None
            else:
                if r.get("exit") != 137:
                    raise HarnessError(f"trial child died outside the plan: {json.dumps(r)[:400]}")
                fired = True
        if fired:
            self.count("fired")
            self.count(f"fired:{layer}:{fkind}")
            if changes:
                self.tuples.add(f"{w['op']}|{pos}|{fkind}" if layer != "L3" else f"{w['op']}|{SYSCALL_KIND.get(syscalls[arm - 1])}|{min(len(syscalls) - arm, 30)}")
        sha = c08.dump_sha(d)
        self.events.append([where, ("died" if died else res["r1"]["outcome"]), "pre" if sha == sha_pre else "post" if sha == sha_post else "other"])
        lib = getattr(self, "last_lib", None)
        if lib is not None:
            self.count("probe:first-access-through-library-after-crash")
            bad = [x for x in (lib["reads"] or []) if x[1] != "ok"]
            if lib["died"] or bad:
                self.fail("not-retrievable-after-crash", f"w={wclass} {where} first-access=library "
                          f"outcome={'died' if lib['died'] else bad[0][1]}", {"reads": lib["reads"]})
                return
            if not lib["clean"]:
                self.fail("integrity", f"w={wclass} {where} first-access=library", {"error": lib.get("dump_error")})
                return
            if lib["sha"] not in (sha_pre, sha_post):
                self.fail("half-applied", f"w={wclass} {where} first-access=library tables={_half_sig(D_pre, D_post, lib['dump'])}", {})
                return
        # clause 1
        if not c08.dump_clean(d):
            self.fail("integrity", f"w={wclass} {where}", {"integrity": d["integrity"][:3], "fk": d["fk"][:3]})
            return
        # (former clause 6) files left next to the database are not part of what the property promises: counted only
        if stray:
            self.count("probe:stray-files-next-to-database", len(stray))
        # clause 2: all or nothing
        if sha not in (sha_pre, sha_post):
            self.fail("half-applied", f"w={wclass} {where} tables={_half_sig(D_pre, D_post, d)}", {"diff_vs_pre": c08._dump_diff(D_pre, d)})
            return
        state = "post" if (sha == sha_post and changes) else "pre"
        if fired and changes:
            self.count("probe:ended-in-" + state)
            if state == "post":
                self.count("probe:fault-after-commit-point")
        if layer == "L3" and fired:
            k = syscalls[arm - 1]
            if k == 4:
                self.count("probe:death-before-journal-unlink")
            if k == 1 and arm > 1 and syscalls[arm - 2] == 1:
                self.count("probe:death-between-page-writes")
        if fired and layer != "L3":
            if "fetch" in plan:
                self.count("probe:fault-while-reading-rows")
                plan = dict(plan, event=self.fetches[plan["fetch"] - 1][0] + 1)   # position among the events, for the probes
            if any(e[1].startswith("INSERT") or e[1].startswith("DELETE") or e[1].startswith("UPDATE") for e in events[:plan["event"] - 1] if e[0] == "exec"):
                self.count("probe:fault-after-a-row-was-written")
            if "fetch" not in plan and events[plan["event"] - 1][0] == "commit":
                self.count("probe:fault-at-commit")
        # clause 3: a swallowed fault must leave the complete effect
        if layer == "L1" and fired:
            o = res["r1"]["outcome"]
            if o == "ok" and out1["outcome"] == "ok" and sha != sha_post:
                self.fail("swallowed-fault-incomplete", f"w={wclass} {where}", {})
                return
            if o == "ok" and out1["outcome"] != "ok":
                self.fail("fault-turned-refusal-into-success", f"w={wclass} {where} golden={out1['outcome']}", {})
                return
        # clause 5: repeatable
        if layer == "L1":
            if not fired:
                return
            # the same process retried right away (the trial file now holds the retry's result)
            o2 = res["r2"]
            d2 = d_final
            sha2 = c08.dump_sha(d2)
            if not c08.dump_clean(d2):
                self.fail("integrity", f"w={wclass} {where} after=retry", {})
                return
            want_out, want_sha = (out1, sha_post) if state == "pre" else (out2, sha_post2)
            if o2["outcome"] != want_out["outcome"]:
                self.fail("not-repeatable", f"w={wclass} {where} retry=same-process state={state} got={o2['outcome']} "
                          f"want={want_out['outcome']}", {"msg": o2.get("msg")})
                return
            if sha2 != want_sha:
                self.fail("retry-result-differs", f"w={wclass} {where} retry=same-process state={state}",
                          {"diff": c08._dump_diff(D_post, d2)})
                return
            self.count("retries:same-process")
        elif fired:
            zr = r.get("before_reap")
            if zr is not None:
                self.count("probe:retry-while-dead-writer-not-yet-reaped")
                want_out, want_sha = (out1, sha_post) if state == "pre" else (out2, sha_post2)
                got = zr["r1"]
                if got is None or not zr["clean"]:
                    self.fail("not-repeatable", f"w={wclass} {where} retry=while-writer-unreaped state={state} got=died-or-corrupt", {"zr": zr})
                    return
                if got.get("uploaded_id") == out1.get("uploaded_id"):
                    if got["outcome"] != want_out["outcome"]:
                        self.fail("not-repeatable", f"w={wclass} {where} retry=while-writer-unreaped state={state} got={got['outcome']} "
                                  f"want={want_out['outcome']}", {"msg": got.get("msg")})
                        return
                    if zr["sha"] != want_sha:
                        self.fail("retry-result-differs", f"w={wclass} {where} retry=while-writer-unreaped state={state}", {})
                        return
            fr, fsha, fclean = fresh_expect(state)
            want_out, want_sha = (out1, sha_post) if state == "pre" else (out2, sha_post2)
            same_upload = fr.get("uploaded_id") == out1.get("uploaded_id")
            if not fclean:
                self.fail("integrity", f"w={wclass} {where} retry=fresh-session", {})
                return
            if same_upload and fr["outcome"] != want_out["outcome"]:
                self.fail("not-repeatable", f"w={wclass} {where} retry=fresh-session state={state} got={fr['outcome']} "
                          f"want={want_out['outcome']}", {"msg": fr.get("msg")})
                return
            if same_upload and fsha != want_sha:
                self.fail("retry-result-differs", f"w={wclass} {where} retry=fresh-session state={state}", {})
                return
            self.count("retries:fresh-session(memoised)")


def _half_sig(D_pre, D_post, d):
    parts = []
    for t in sorted(set(D_pre["tables"]) | set(D_post["tables"]) | set(d["tables"])):
        a, b, c = D_pre["tables"].get(t), D_post["tables"].get(t), d["tables"].get(t)
        if a == b:
            if c != a:
                parts.append(t + ":foreign")
            continue
        parts.append(t + (":pre" if c == a else ":post" if c == b else ":partial"))
    return ",".join(parts)


# ----------------------------------------------------------------------------- run / replay

def _prepare(ctx, case, rng):
    """Prefix and W are generated against a dictionary model fed by executing the prefix fault-free."""
    rundir = env.new_run_dir("c09g")
    try:
        path = os.path.join(rundir, "g.db")
        shutil.copyfile(ctx.memo["templates"][case["template"]], path)
        fm = c08.new_file_model(ctx, case["template"])
        s = Session(c08._session_factory({"F1": path}), name="G")
        prefix = []
        favourites = []
        try:
            for _ in range(case["n_prefix"]):
                op = c08.gen_op(rng, case["cfg"], {"F1": fm}, favourites)
                if op["op"].endswith("_from_db"):
                    continue
                op["session"] = "A"
                r = s.call({"cmd": "op", "op": op})
                prefix.append(op)
                if r["outcome"] == "ok" and ("uploaded" in r or "delete" in op["op"]):
                    try:
                        fm.apply(op, r)
                    except Exception:
                        pass
        finally:
            s.kill()
        s2 = Session(c08._session_factory({"F1": path}), name="G2")
        try:
            kind = case.get("kind")
            if kind:
                for op in setup_ops_for(kind, rng, fm):
                    r = s2.call({"cmd": "op", "op": op})
                    prefix.append(op)
                    if r["outcome"] == "ok":
                        fm.apply(op, r)
        finally:
            s2.kill()
        w = gen_w(rng, case["cfg"], fm, favourites, kind=case.get("kind"))
        if rng.random() < 0.3:
            w["verbose"] = True
    finally:
        shutil.rmtree(rundir, ignore_errors=True)
    return prefix, w


def execute(ctx, case, prefix, w):
    rundir = env.new_run_dir("c09")
    c = Case(ctx, case, rundir)
    try:
        c.run(w, prefix)
    finally:
        shutil.rmtree(rundir, ignore_errors=True)
    res = {"digest": dg.sha(c.events), "counters": c.counters, "sets": {"tuples": sorted(c.tuples)}, "violations": []}
    if c.viol is not None:
        v = c.viol
        v["replay"] = {"case": case, "prefix": prefix, "w": w}
        res["violations"].append(v)
    res["events"] = c.events
    return res


def run(ctx, index):
    rng = random.Random(ctx.rs(index))
    case = gen_case(rng, ctx.tier)
    case["l3_pick"] = (index % 4 == 0)
    case["kind"] = KIND_CYCLE[index % len(KIND_CYCLE)]
    case["index"] = index
    prefix, w = _prepare(ctx, case, rng)
    res = execute(ctx, case, prefix, w)
    if index < 2:
        res["sample"] = {"run": index, "template": case["template"], "warm_parent": case["warm"], "prefix_ops": [p["op"] for p in prefix],
                         "w": c08.Run.describe(None, w), "trials": res["events"][:60]}
    res.pop("events", None)
    return res


def replay(ctx, rep):
    res = execute(ctx, rep["case"], rep["prefix"], rep["w"])
    return res["violations"][0] if res["violations"] else None


def minimise(ctx, rep):
    from sim.core.ddmin import ddmin
    sig = rep["signature"]
    tests = [0]

    def fails(prefix):
        tests[0] += 1
        try:
            res = execute(ctx, rep["case"], prefix, rep["w"])
        except HarnessError:
            return False
        return bool(res["violations"]) and res["violations"][0]["signature"] == sig

    prefix = rep["prefix"]
    n0 = len(prefix)
    if prefix:
        if fails([]):
            prefix = []
        else:
            prefix, _ = ddmin(prefix, fails, budget=12)
    rep = dict(rep)
    rep["prefix"] = prefix
    case = dict(rep["case"])
    if case.get("warm"):
        case2 = dict(case, warm=False)
        tests[0] += 1
        try:
            res = execute(ctx, case2, prefix, rep["w"])
            if res["violations"] and res["violations"][0]["signature"] == sig:
                rep["case"] = case2
        except HarnessError:
            pass
    return rep, {"prefix_before": n0, "prefix_after": len(prefix), "tests": tests[0]}


def coverage(total):
    c = total["counters"]
    tuples = total["sets"].get("tuples", set())
    return {
        "evaluations": c.get("trials", 0),
        "distinct_nontrivial": len(tuples),
        "rule": ("one evaluation = one fault trial: the write operation W of a sampled case (prior content + W) executed in a "
                 "forked process with exactly one fault; per case EVERY intercepted event of W x every fault kind / crash point "
                 "is enumerated (L1 statement errors, L2 process death at API boundaries, L3 process death before each "
                 "file-modifying system call inside libsqlite3). distinct_nontrivial = distinct (operation, statement head or "
                 "syscall kind+ordinal-from-end, timing, fault kind) tuples in which the fault actually fired AND the golden "
                 "run changes the database"),
        "cases": c.get("cases", 0),
        "cases_changing_db": c.get("cases:changing", 0),
        "statements_enumerated": c.get("statements", 0),
        "exhaustive_per_case": "every statement/commit/close event x fault kinds; every intercepted syscall when L3 is on",
        "faults_fired": {k[6:]: v for k, v in c.items() if k.startswith("fired:")},
        "faults_planned_not_fired": c.get("not-fired", 0),
        "trials_by_layer": {k[7:]: v for k, v in c.items() if k.startswith("trials:")},
        "retries": {k[8:]: v for k, v in c.items() if k.startswith("retries:")},
        "case_operations": {k[8:]: v for k, v in c.items() if k.startswith("case-op:")},
        "probes": {k[6:]: v for k, v in c.items() if k.startswith("probe:")},
        "l3_layer": "on" if c.get("trials:L3", 0) else "off (no shim or not selected)",
        "components": {"real": ["pygaps (working tree)", "sqlite3 / libsqlite3 3.40 (rollback journal)", "files on tmpfs"],
                       "stubs": [],
                       "wrappers": ["sqlite3.connect seam (fault plan at statement/commit/close events)",
                                    "LD_PRELOAD crashshim.so (process death before the n-th pwrite/fsync/unlink/ftruncate)"]},
    }


def reach_failures(total, tier):
    c = total["counters"]
    if c.get("cases", 0) < 20:
        return []
    need = ["fired:L1:IntegrityError", "fired:L1:OperationalError", "fired:L2:exit", "probe:fault-after-a-row-was-written",
            "probe:fault-at-commit", "probe:fault-after-commit-point"]
    if c.get("trials:L3", 0):
        need += ["fired:L3:exit-in-sqlite"]   # (which syscall is the commit point depends on the journal mode)
    return [k for k in need if c.get(k, 0) == 0]
