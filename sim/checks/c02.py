"""C02 - permanent conversions stay consistent over any conversion history (DESIGN 4.1).

One PointIsotherm per run, mutated in place by a generated history of convert* calls
with refusals (missing thermodynamic / material properties, bad arguments) as the
fault dimension.  Oracle: label-driven comparison with the reference model
(sim/models/refconv.py) after every call.
"""
import copy
import json
import random

from sim.core import digest as dg
from sim.core.ddmin import ddmin
from sim.core.proc import fork_call

PROP = "C02"
LEVEL = "exploration"
BATCH = 40
ASSUMPTIONS = [
    "unit tables and physical constants (molar mass, densities, saturation pressure, 273.15) are read from the "
    "library at run time: whether a factor is right is C01's business, C02 checks consistency over histories",
    "user adsorbates carry mutually consistent property sets (mass density = molar density x molar mass), so that "
    "path independence of conversions is a theorem of the world",
    "float comparisons rtol 1e-9; labels, bystander columns, metadata, order and refusal-invariance are bit-exact",
    "single actor, no I/O: the simulated dimensions are the call history and the refusals inside it",
]

P_UNITS = ["Pa", "kPa", "MPa", "mbar", "bar", "atm", "mmHg", "torr"]
MASS_U = ["amu", "mg", "cg", "dg", "g", "kg"]
VOL_U = ["cm3", "mL", "cc", "dm3", "L", "m3"]
MOL_U = ["mmol", "mol", "kmol", "cm3(STP)", "mL(STP)", "cc(STP)", "L(STP)"]
P_REPS = [("absolute", u) for u in P_UNITS] + [("relative", None), ("relative%", None)]
L_REPS = ([("mass", u) for u in MASS_U] + [("volume_gas", u) for u in VOL_U] + [("volume_liquid", u) for u in VOL_U]
          + [("molar", u) for u in MOL_U] + [("percent", None), ("fraction", None)])
M_REPS = [("mass", u) for u in MASS_U] + [("volume", u) for u in VOL_U] + [("molar", u) for u in MOL_U]
N_REPS = len(P_REPS) * len(L_REPS) * len(M_REPS)  # 5130 ; x2 temperature units = 10260
assert N_REPS * 2 == 10260

_PERM = list(range(N_REPS * 2))
random.Random(20260203).shuffle(_PERM)

LOADING_UNITS = {"mass": MASS_U, "volume_gas": VOL_U, "volume_liquid": VOL_U, "molar": MOL_U}
MATERIAL_UNITS = {"mass": MASS_U, "volume": VOL_U, "molar": MOL_U}

ADS_SUB = [("N2", 77.355), ("Ar", 87.3), ("CO2", 273.15), ("CH4", 111.7), ("O2", 90.2), ("Kr", 119.9),
           ("C4H10", 272.6), ("H2O", 298.15),
           # gases whose stored molar mass differs from the backend's in the 5th..7th digit, and a few more
           ("SF6", 230.0), ("C6H6", 298.15), ("C2H6", 184.6), ("C3H8", 231.0), ("C2H4", 169.4), ("NH3", 239.8),
           ("Xe", 165.0), ("CO", 81.6), ("CH3OH", 298.15), ("C2H5OH", 298.15), ("C3H6", 225.5)]
SUB_TEMPS = {"N2": [77.355, 87.3, 100.0], "Ar": [87.3, 95.0, 110.0], "CO2": [273.15, 283.15, 298.15], "CH4": [111.7, 130.0, 150.0],
             "O2": [90.2, 100.0, 120.0], "Kr": [119.9, 150.0, 170.0], "C4H10": [272.6, 298.15, 320.0], "H2O": [298.15, 323.15, 350.0],
             "SF6": [230.0, 250.0, 280.0], "C6H6": [298.15, 320.0, 350.0], "C2H6": [184.6, 220.0, 250.0], "C3H8": [231.0, 260.0, 300.0],
             "C2H4": [169.4, 200.0, 240.0], "NH3": [239.8, 270.0, 300.0], "Xe": [165.0, 200.0, 250.0], "CO": [81.6, 95.0, 110.0],
             "CH3OH": [298.15, 320.0, 350.0], "C2H5OH": [298.15, 320.0, 350.0], "C3H6": [225.5, 260.0, 300.0]}
ADS_SUPER = [("N2", 298.15), ("CH4", 303.0), ("H2", 77.0), ("Ar", 200.0)]
# user-defined gases that name a fluid of the thermodynamic backend (all constants come from there), sub-critical
BACKEND_FLUIDS = [("Propane", 231.0), ("Ethane", 184.6), ("Krypton", 119.9), ("Xenon", 165.0), ("n-Butane", 272.7),
                  ("Argon", 87.3), ("CarbonDioxide", 273.15), ("Methane", 111.7)]
NEAR_ONE = [1.000004, 0.999996, 1.0000007]        # constants for which a conversion factor is almost, but not, one


def tier_runs(tier):
    return 12000 if tier == "quick" else 300000


def tier_budget_s(tier):
    return 600 if tier == "quick" else 3000


def decode_rep(k):
    tu = "K" if k % 2 == 0 else "°C"
    k //= 2
    p = P_REPS[k % len(P_REPS)]
    k //= len(P_REPS)
    l = L_REPS[k % len(L_REPS)]
    k //= len(L_REPS)
    m = M_REPS[k % len(M_REPS)]
    return {"pressure_mode": p[0], "pressure_unit": p[1], "loading_basis": l[0], "loading_unit": l[1],
            "material_basis": m[0], "material_unit": m[1], "temperature_unit": tu}


# --------------------------------------------------------------------------- world generation

def gen_world(rng, index):
    labels = decode_rep(_PERM[index % len(_PERM)])
    cls = rng.choices(["sub", "super", "user_full", "user_partial", "user_backend"], [42, 10, 23, 18, 7])[0]
    user_ads = None
    ghosts = None
    if cls == "sub":
        ads, T = rng.choice(ADS_SUB)
    elif cls == "super":
        ads, T = rng.choice(ADS_SUPER)
    elif cls == "user_backend":
        fluid, T = rng.choice(BACKEND_FLUIDS)
        ads = "VerifGas%d" % rng.randint(1, 9)
        user_ads = {"name": ads, "backend_name": fluid}
        if rng.random() < 0.7:
            # earlier in the same program other user gases existed (and were used) and are gone
            others = [f for f in BACKEND_FLUIDS if f[0] != fluid]
            ghosts = [{"name": "VerifGhost%d" % k, "backend_name": f, "T": t} for k, (f, t) in
                      enumerate(rng.choice(others) for _ in range(12))]
    else:
        M = round(rng.uniform(2.0, 200.0), 4)
        rl = round(rng.uniform(0.3, 2.0), 5)
        rg = round(rng.uniform(1e-4, 1e-2), 7)
        if rng.random() < 0.06:
            M = rng.choice([1000.0, 1.0]) * rng.choice(NEAR_ONE)
        if rng.random() < 0.06:
            rl = rng.choice(NEAR_ONE)
        props = {"molar_mass": M, "liquid_density": rl, "gas_density": rg,
                 "liquid_molar_density": rl / M, "gas_molar_density": rg / M,
                 "saturation_pressure": round(rng.uniform(1e3, 1e6), 2)}
        if cls == "user_partial":
            keys = sorted(props)
            for k in rng.sample(keys, rng.randint(1, 4)):
                del props[k]
        ads = "VerifGas%d" % rng.randint(1, 9)
        user_ads = dict(name=ads, **props)
        T = round(rng.uniform(60.0, 400.0), 3)
    mcls = rng.choices(["both", "density", "molar_mass", "none"], [50, 20, 15, 15])[0]
    mat = {"name": "VerifMat%d" % rng.randint(1, 9)}
    if mcls in ("both", "density"):
        mat["density"] = round(rng.uniform(0.2, 5.0), 4) if rng.random() > 0.06 else rng.choice(NEAR_ONE)
    if mcls in ("both", "molar_mass"):
        mat["molar_mass"] = round(rng.uniform(50.0, 5000.0), 3) if rng.random() > 0.06 else 1000.0 * rng.choice(NEAR_ONE)
    material = mat if len(mat) > 1 else mat["name"]
    if mcls in ("both", "density") and rng.random() < 0.08:
        # a Material subclass that computes its density from other properties (no stored 'density' at all)
        por = rng.choice([0.25, 0.45, 0.5])
        mat = dict(mat, __class__="Monolith", skeletal_density=round(mat.pop("density") / (1 - por), 6), porosity=por)
        material = mat
    # data
    n = rng.randint(3, 25)
    scale_p = 10 ** (rng.uniform(-9, -3) if rng.random() < 0.25 else rng.uniform(-3, 1.5))   # incl. high-vacuum points
    scale_l = 10 ** rng.uniform(-2, 1.5)
    integer_data = rng.random() < 0.12
    p, l = [], []
    cp, cl = 0.0, 0.0
    for _ in range(n):
        cp += rng.uniform(0.05, 1.0)
        cl += rng.uniform(0.05, 1.0)
        p.append(cp * scale_p)
        l.append(cl * scale_l)
    if integer_data:
        # integer-valued columns; half of the time as true integers (int64 columns in the frame)
        as_int = rng.random() < 0.5
        p = [(i + 1) if as_int else float(i + 1) for i in range(n)]
        l = [(2 * i + 1) if as_int else float(2 * i + 1) for i in range(n)]
    if rng.random() < 0.4 and n >= 4:
        m = rng.randint(1, n - 2)
        for j in range(m):
            src = n - 2 - j
            if src < 0:
                break
            if integer_data:
                p.append(p[src])
                l.append(l[src] + 1)
            else:
                p.append(p[src] * rng.uniform(0.96, 0.999))
                l.append(l[src] * rng.uniform(1.001, 1.2))
    npts = len(p)
    has_nan = (not integer_data) and rng.random() < 0.08
    if has_nan:
        l[rng.randrange(npts)] = float("nan")          # a missing reading: stays missing, the other points convert
    bsel = rng.choices(["guess", "ads", "des", "list"], [50, 20, 10, 20])[0]
    if has_nan and bsel == "guess":
        bsel = "ads"
    branch = bsel
    if bsel == "list":
        k = rng.randint(0, npts)
        branch = [False] * k + [True] * (npts - k)
    other = {}
    if rng.random() < 0.45:
        other["enthalpy"] = [round(rng.uniform(5, 40), 6) for _ in range(npts)]
    if rng.random() < 0.2:
        other["note"] = [rng.choice(["a", "b", "eq", ""]) for _ in range(npts)]
    meta = {}
    if rng.random() < 0.7:
        pool = {"user": "alice", "iso_ref": 12, "flag": True, "t_act": 150.5, "comment": "first run",
                "machine": "M-3", "lab": "x", "nothing": None, "tags": ["a", "b"]}
        for k in rng.sample(sorted(pool), rng.randint(1, 5)):
            meta[k] = pool[k]
    temp_val = T if labels["temperature_unit"] == "K" else T - 273.15
    iso = {"kind": "point", "material": material, "adsorbate": ads, "temperature": temp_val,
           "units": labels, "meta": meta, "pressure": p, "loading": l, "branch": branch, "other": other,
           "route": "frame" if (other or rng.random() < 0.3) else "arrays"}
    if iso["route"] == "frame" and rng.random() < 0.2:
        kind = rng.choice(["shifted", "gaps", "shuffled", "labels"])
        if kind == "shifted":
            iso["index"] = [i + 5 for i in range(npts)]
        elif kind == "gaps":
            iso["index"] = [2 * i + 1 for i in range(npts)]
        elif kind == "shuffled":
            idx = list(range(npts))
            rng.shuffle(idx)
            iso["index"] = idx
        else:
            iso["index"] = ["r%d" % (npts - i) for i in range(npts)]
    if iso["route"] == "frame" and rng.random() < 0.3:
        iso["keys"] = rng.choice([["p", "q"], ["P/bar", "uptake"], ["loading", "pressure"]])   # custom (even swapped) column names
        if isinstance(branch, list) and rng.random() < 0.5:
            iso["branch_in_frame"] = True
    world = {"adsorbates": [user_ads] if user_ads else [], "iso": iso, "T_K": T,
             "ads_class": cls, "mat_class": mcls}
    if ghosts:
        world["ghost_gases"] = ghosts
    if isinstance(material, dict) and rng.random() < 0.2:
        # after the isotherm exists, another Material object of the same name with OTHER constants is put into the
        # in-memory list (as a later upload or Material(..., store=True) would): conversions must keep using the isotherm's own
        world["decoy_material"] = {"name": material["name"], "density": round(rng.uniform(0.2, 5.0), 4),
                                   "molar_mass": round(rng.uniform(50.0, 5000.0), 3)}
    if cls == "sub" and rng.random() < 0.3:
        # a second isotherm of the same gas at another (sub-critical) temperature, converted in the same process:
        # the two share one Adsorbate object and hence one thermodynamic state
        alt = [t for t in SUB_TEMPS[ads] if abs(t - T) > 1.0]
        T2 = rng.choice(alt)
        lab2 = decode_rep(_PERM[(index * 7919 + 13) % len(_PERM)])
        n2 = rng.randint(3, 8)
        p2 = [round((i + 1) * rng.uniform(0.05, 0.5) * scale_p, 12) for i in range(n2)]
        p2 = sorted(set(p2))
        l2 = [(i + 1) * 0.75 * scale_l for i in range(len(p2))]
        world["sibling"] = {"T_K": T2, "iso": {
            "kind": "point", "material": material, "adsorbate": ads,
            "temperature": T2 if lab2["temperature_unit"] == "K" else T2 - 273.15,
            "units": lab2, "meta": {}, "pressure": p2, "loading": l2, "branch": "ads", "other": {}, "route": "arrays"}}
    return world


# --------------------------------------------------------------------------- constants (read in a throw-away child)

def _read_consts(world):
    import pygaps
    from sim.worlds import build
    build.register_world({"adsorbates": world["adsorbates"]})
    iso = build.make_isotherm(world["iso"])
    ads = iso.adsorbate
    T = float(world["T_K"])     # the generator's own kelvin value, not what the isotherm object reports
    out = {}

    def grab(name, fn):
        try:
            v = fn()
            out[name] = float(v) if v is not None else None
        except Exception:
            out[name] = None
    grab("molar_mass", lambda: ads.molar_mass())
    grab("gas_density", lambda: ads.gas_density(T))
    grab("gas_molar_density", lambda: ads.gas_molar_density(T))
    grab("liquid_density", lambda: ads.liquid_density(T))
    grab("liquid_molar_density", lambda: ads.liquid_molar_density(T))
    grab("saturation_pressure", lambda: ads.saturation_pressure(T))
    grab("mat_density", lambda: iso.material.density)
    grab("mat_molar_mass", lambda: iso.material.molar_mass)
    from pygaps.units import converter_unit as cu
    out["tables"] = {"pressure": dict(cu._PRESSURE_UNITS), "mass": dict(cu._MASS_UNITS),
                     "volume": dict(cu._VOLUME_UNITS), "molar": dict(cu._MOLAR_UNITS),
                     "celsius_offset": float(cu._TEMPERATURE_UNITS["°C"])}
    out["T_K"] = float(T)
    return out


def get_consts(ctx, world):
    key = json.dumps([world["adsorbates"], world["iso"]["adsorbate"], world["T_K"], world["iso"]["material"],
                      world["iso"]["units"]["temperature_unit"]], sort_keys=True)
    memo = ctx.memo.setdefault("consts", {})
    if key not in memo:
        if len(memo) > 5000:
            memo.clear()
        r = fork_call(_read_consts, (world,), timeout=60)
        if r["result"] is None:
            from sim.core.proc import HarnessError
            raise HarnessError("constants child failed: " + json.dumps(r)[:500])
        memo[key] = r["result"]
    return memo[key]


# --------------------------------------------------------------------------- operations

BAD_UNITS = {"pressure": ["Bar", "psi", "mmol", "g", "KPA", " Pa"], "loading": ["kPa", "mmoll", "bar", "K", "MMOL", " mol", "Mg", "CM3"],
             "material": ["kPa", "gram", "torr", "°C", "KG", "g ", "ML"]}
BAD_BASES = {"pressure": ["abs", "Relative", "percent"], "loading": ["molarr", "volume", "relative"],
             "material": ["masss", "volume_gas", "fraction"]}


def _pair(rng, quantity, cur_basis, cur_unit, units_of, bases):
    """Draw (basis/mode, unit) arguments by class; returns (basis, unit, cls)."""
    cls = rng.choices(["valid", "current", "unit_only", "basis_only", "neither", "wrong_unit", "bad_basis", "empty"],
                      [50, 6, 12, 10, 5, 9, 5, 3])[0]
    if cls == "empty":      # an empty string where a unit (and maybe a basis) would go: another way of omitting it
        return rng.choice([None, cur_basis, ""]), "", cls
    if cls == "valid":
        b = rng.choice(bases)
        us = units_of(b)
        return b, (rng.choice(us) if us else None), cls
    if cls == "current":
        return cur_basis, cur_unit, cls
    if cls == "unit_only":
        us = units_of(cur_basis)
        return None, (rng.choice(us) if us else rng.choice(units_of(bases[0]))), cls
    if cls == "basis_only":
        return rng.choice(bases), None, cls
    if cls == "neither":
        return None, None, cls
    if cls == "wrong_unit":
        b = rng.choice(bases + [None])
        return b, rng.choice(BAD_UNITS[quantity]), cls
    return rng.choice(BAD_BASES[quantity]), rng.choice((units_of(cur_basis) or [None])), cls


def _p_units(mode):
    return P_UNITS if mode == "absolute" else []


def gen_op(rng, labels):
    """One operation drawn from the PRNG given the labels the isotherm should currently have."""
    kind = rng.choices(["pressure", "loading", "material", "temperature", "convert", "observe"],
                       [22, 22, 18, 8, 22, 8])[0]
    if kind == "pressure":
        m, u, c = _pair(rng, "pressure", labels["pressure_mode"], labels["pressure_unit"], _p_units,
                        ["absolute", "relative", "relative%"])
        return {"op": "convert_pressure", "mode_to": m, "unit_to": u, "cls": c}
    if kind == "loading":
        b, u, c = _pair(rng, "loading", labels["loading_basis"], labels["loading_unit"],
                        lambda x: LOADING_UNITS.get(x, []), list(LOADING_UNITS) + ["percent", "fraction"])
        return {"op": "convert_loading", "basis_to": b, "unit_to": u, "cls": c}
    if kind == "material":
        b, u, c = _pair(rng, "material", labels["material_basis"], labels["material_unit"],
                        lambda x: MATERIAL_UNITS.get(x, []), list(MATERIAL_UNITS))
        return {"op": "convert_material", "basis_to": b, "unit_to": u, "cls": c}
    if kind == "temperature":
        return {"op": "convert_temperature", "unit_to": rng.choice(["K", "°C", "°C", "K", "C", "celsius", "F", None])}
    if kind == "convert":
        kw = {}
        groups = rng.sample(["pressure", "loading", "material"], rng.randint(1, 3))
        if "pressure" in groups:
            m, u, _ = _pair(rng, "pressure", labels["pressure_mode"], labels["pressure_unit"], _p_units,
                            ["absolute", "relative", "relative%"])
            kw["pressure_mode"], kw["pressure_unit"] = m, u
        if "loading" in groups:
            b, u, _ = _pair(rng, "loading", labels["loading_basis"], labels["loading_unit"],
                            lambda x: LOADING_UNITS.get(x, []), list(LOADING_UNITS) + ["percent", "fraction"])
            kw["loading_basis"], kw["loading_unit"] = b, u
        if "material" in groups:
            b, u, _ = _pair(rng, "material", labels["material_basis"], labels["material_unit"],
                            lambda x: MATERIAL_UNITS.get(x, []), list(MATERIAL_UNITS))
            kw["material_basis"], kw["material_unit"] = b, u
        if rng.random() < 0.3:  # pass only a subset of the keywords explicitly
            for k in list(kw):
                if kw[k] is None and rng.random() < 0.5:
                    del kw[k]
        return {"op": "convert", "kw": kw}
    return {"op": "observe", "what": rng.choice(["loading_at", "pressure_at"]), "frac": round(rng.uniform(0.1, 0.9), 3),
            "kind": rng.choice(["linear", "linear", "nearest", "slinear"])}


def return_op(start):
    return {"op": "return", "kw": {k: start[k] for k in ("pressure_mode", "pressure_unit", "loading_basis",
                                                        "loading_unit", "material_basis", "material_unit")},
            "temperature_unit": start["temperature_unit"]}


# --------------------------------------------------------------------------- snapshots and oracle

LABELS = ["pressure_mode", "pressure_unit", "loading_basis", "loading_unit", "material_basis", "material_unit",
          "temperature_unit"]
GROUPS = {"pressure": ["pressure_mode", "pressure_unit"], "loading": ["loading_basis", "loading_unit"],
          "material": ["material_basis", "material_unit"], "temperature": ["temperature_unit"]}


def snapshot(iso):
    df = iso.data_raw
    cols = {}
    for c in df.columns:
        cols[str(c)] = [df[c].dtype.kind, dg.canon(df[c].tolist())]
    return {
        "labels": {k: getattr(iso, k, "<missing>") for k in LABELS},
        "_temperature": dg.canon(iso._temperature),
        "columns": [str(c) for c in df.columns],
        "index": dg.canon(df.index.tolist()),
        "cols": cols,
        "meta": dg.canon(iso.properties),
        "material": [id(iso.material), dg.canon(iso.material.to_dict())],
        "adsorbate": [id(iso.adsorbate), dg.canon(iso.adsorbate.to_dict())],
        "keys": [iso.pressure_key, iso.loading_key],
        # the rest of what a user can see of the frame and its roles: the names of the other columns as the isotherm
        # reports them, the types of the column labels, the names of the two axes, the frame's attrs
        "frame": dg.canon([list(getattr(iso, "other_keys", [])), [type(c).__name__ for c in df.columns],
                           df.index.name, df.columns.name, dict(df.attrs)]),
    }


def _floats(iso, key):
    return [float(v) for v in iso.data_raw[key].tolist()]


def _close(a, b, rtol=1e-9):
    if a == b:
        return True
    if a != a or b != b:
        return a != a and b != b
    return abs(a - b) <= 1e-300 + rtol * max(abs(a), abs(b))


def _cols_close(xs, ys):
    if ys is None or len(xs) != len(ys):
        return False
    return all(_close(x, y) for x, y in zip(xs, ys))


def op_class(op, before):
    """Value-free class of an operation relative to the labels before it."""
    def arg(v, cur):
        if not v:           # None or an empty string
            return "omitted"
        return "same" if v == cur else "other"
    o = op["op"]
    if o == "convert_pressure":
        return f"convert_pressure[mode={arg(op['mode_to'], before['pressure_mode'])},unit={arg(op['unit_to'], before['pressure_unit'])}]"
    if o == "convert_loading":
        return f"convert_loading[basis={arg(op['basis_to'], before['loading_basis'])},unit={arg(op['unit_to'], before['loading_unit'])}]"
    if o == "convert_material":
        frac = ",frac" if before["loading_basis"] in ("percent", "fraction") else ""
        return f"convert_material[basis={arg(op['basis_to'], before['material_basis'])},unit={arg(op['unit_to'], before['material_unit'])}{frac}]"
    if o == "convert_temperature":
        u = op["unit_to"]
        return f"convert_temperature[{'omitted' if u is None else ('same' if u == before['temperature_unit'] else repr(u))}]"
    if o in ("convert", "return"):
        kw = op["kw"]
        parts = []
        for g, (b, u) in (("pressure", ("pressure_mode", "pressure_unit")), ("material", ("material_basis", "material_unit")),
                          ("loading", ("loading_basis", "loading_unit"))):
            if kw.get(b) or kw.get(u):
                parts.append(f"{g}:{arg(kw.get(b), before[b])}/{arg(kw.get(u), before[u])}")
        return f"{o}[{','.join(parts)}]"
    return o


class Oracle:
    def __init__(self, world, consts):
        from sim.models.refconv import RefModel, Tables
        t = consts["tables"]
        self.tables = Tables(t["pressure"], t["mass"], t["volume"], t["molar"])
        self.offset = t["celsius_offset"]
        self.start = dict(world["iso"]["units"])
        self.model = RefModel(self.tables, consts, self.start, world["iso"]["pressure"], world["iso"]["loading"])
        self.T_K = consts["T_K"]
        self.viol = None

    def fail(self, kind, signature, detail):
        if self.viol is None:
            self.viol = {"kind": "C02/" + kind, "signature": "C02/" + kind + " " + signature, "detail": detail}

    # clause 1 -------------------------------------------------------------
    def check_valid(self, iso, opc):
        from pygaps.core.baseisotherm import BaseIsotherm
        try:
            rebuilt = BaseIsotherm(**iso.to_dict())
            # "the labels name exactly that representation": rebuilding the isotherm from its own dictionary
            # must give back the same labels (the constructor's normal form of a representation)
            for k in LABELS:
                if getattr(rebuilt, k) != getattr(iso, k):
                    self.fail("labels-not-canonical", f"after={opc} label={k}",
                              {"label": k, "isotherm": getattr(iso, k), "rebuilt": getattr(rebuilt, k)})
                    return False
            return True
        except Exception as e:
            lab = {k: getattr(iso, k, None) for k in LABELS}
            bad = []
            if lab["pressure_mode"] == "absolute" and lab["pressure_unit"] not in self.tables.pressure:
                bad.append(f"pressure_unit={lab['pressure_unit']!r}")
            lu = self.tables.loading_units(lab["loading_basis"])
            if lab["loading_basis"] not in ("percent", "fraction") and (lu is None or lab["loading_unit"] not in lu):
                bad.append(f"loading_unit={lab['loading_unit']!r}@{lab['loading_basis']}")
            mu = self.tables.material_units(lab["material_basis"])
            if lab["loading_basis"] not in ("percent", "fraction") and (mu is None or lab["material_unit"] not in mu):
                bad.append(f"material_unit={lab['material_unit']!r}@{lab['material_basis']}")
            if lab["temperature_unit"] not in ("K", "°C"):
                bad.append(f"temperature_unit={lab['temperature_unit']!r}")
            self.fail("invalid-labels", f"after={opc} bad={';'.join(bad) or type(e).__name__}",
                      {"labels": lab, "error": type(e).__name__})
            return False

    # clause 2 -------------------------------------------------------------
    def check_consistent(self, iso, opc):
        lab = {k: getattr(iso, k) for k in LABELS}
        want_p = self.model.pressure_in(lab)
        want_l = self.model.loading_in(lab)
        got_p = _floats(iso, iso.pressure_key)
        got_l = _floats(iso, iso.loading_key)
        if want_p is None:
            self.fail("unreachable-representation", f"after={opc} quantity=pressure", {"labels": lab})
            return
        if want_l is None:
            self.fail("unreachable-representation", f"after={opc} quantity=loading", {"labels": lab})
            return
        if not _cols_close(got_p, want_p):
            self.fail("data-label-mismatch", f"after={opc} col=pressure", {"labels": lab, "got": got_p[:3], "want": want_p[:3]})
            return
        if not _cols_close(got_l, want_l):
            self.fail("data-label-mismatch", f"after={opc} col=loading", {"labels": lab, "got": got_l[:3], "want": want_l[:3]})
            return
        # temperature: kelvin value never changes; _temperature is that value in temperature_unit
        tk = float(iso.temperature)
        if abs(tk - self.T_K) > 1e-7:
            self.fail("temperature-changed", f"after={opc}", {"got": tk, "want": self.T_K})
            return
        want_t = self.T_K if lab["temperature_unit"] == "K" else self.T_K - self.offset
        if abs(float(iso._temperature) - want_t) > 1e-7:
            self.fail("temperature-label-mismatch", f"after={opc} unit={lab['temperature_unit']!r}",
                      {"got": float(iso._temperature), "want": want_t})

    # clause 3 -------------------------------------------------------------
    def _target_group(self, group, basis, unit, before, after):
        """Does `after` reflect the given arguments for this group?  None = ok, else label name."""
        bkey, ukey = GROUPS[group]
        if basis and after[bkey] != basis:
            return bkey
        if not basis and after[bkey] != before[bkey]:      # None or '' = omitted
            return bkey
        fb = after[bkey]
        has_units = (fb == "absolute") if group == "pressure" else (after["loading_basis"] not in ("percent", "fraction"))
        if unit and has_units and after[ukey] != unit:
            return ukey
        return None

    def check_target(self, op, before, after, opc):
        o = op["op"]
        untouched = []
        if o == "convert_pressure":
            bad = self._target_group("pressure", op["mode_to"], op["unit_to"], before, after)
            untouched = ["loading", "material", "temperature"]
        elif o == "convert_loading":
            bad = self._target_group("loading", op["basis_to"], op["unit_to"], before, after)
            untouched = ["pressure", "material", "temperature"]
        elif o == "convert_material":
            bad = self._target_group("material", op["basis_to"], op["unit_to"], before, after)
            untouched = ["pressure", "loading", "temperature"]
        elif o == "convert_temperature":
            u = op["unit_to"]
            canon = "°C" if (u and "c" in u.lower()) else u
            bad = None if after["temperature_unit"] in (u, canon) else "temperature_unit"
            untouched = ["pressure", "loading", "material"]
        else:
            kw = op["kw"]
            bad = None
            for g, (b, u) in (("pressure", ("pressure_mode", "pressure_unit")), ("material", ("material_basis", "material_unit")),
                              ("loading", ("loading_basis", "loading_unit"))):
                if kw.get(b) or kw.get(u):
                    bad = bad or self._target_group(g, kw.get(b), kw.get(u), before, after)
                else:
                    untouched.append(g)
            if o == "convert":
                untouched.append("temperature")
        if bad:
            self.fail("target-not-reached", f"after={opc} label={bad}", {"before": before, "after": after, "op": op})
            return
        for g in untouched:
            for k in GROUPS[g]:
                if before[k] != after[k]:
                    self.fail("bystander-label-changed", f"after={opc} label={k}", {"before": before, "after": after})
                    return

    # "converting back restores the original numbers" / a possible conversion is performed -----------------
    def _regular(self, lab):
        """Are all current unit labels regular (known unit of the labelled basis)?"""
        t = self.tables
        if lab["pressure_mode"] == "absolute" and lab["pressure_unit"] not in t.pressure:
            return False
        if lab["pressure_mode"] not in ("absolute", "relative", "relative%"):
            return False
        mu = t.material_units(lab["material_basis"])
        if mu is None or lab["material_unit"] not in mu:
            return False
        if lab["loading_basis"] not in ("percent", "fraction"):
            lu = t.loading_units(lab["loading_basis"])
            if lu is None or lab["loading_unit"] not in lu:
                return False
        return True

    def step_possible(self, lab, group, basis_to, unit_to):
        """Conservative: True only if the fully specified single-quantity step from the (regular) labels `lab`
        is possible through the direct factor the library itself uses, with every needed constant known."""
        t = self.tables
        m = self.model
        if not self._regular(lab):
            return False
        if group == "pressure":
            if basis_to not in ("absolute", "relative", "relative%"):
                return False
            if basis_to == "absolute" and unit_to not in t.pressure:
                return False
            a1, a2 = lab["pressure_mode"] == "absolute", basis_to == "absolute"
            return True if a1 == a2 else self.model.c.get("saturation_pressure") is not None
        ads = m._ads_edges()
        mat = m._mat_edges()
        if group == "loading":
            f1 = lab["loading_basis"] in ("percent", "fraction")
            f2 = basis_to in ("percent", "fraction")
            if not f2:
                lu = t.loading_units(basis_to)
                if lu is None or unit_to not in lu:
                    return False
            e1 = m._eff_basis(lab["loading_basis"], lab["material_basis"])
            e2 = m._eff_basis(basis_to, lab["material_basis"])
            return e1 == e2 or (e1, e2) in ads
        if group == "material":
            mu = t.material_units(basis_to)
            if mu is None or unit_to not in mu:
                return False
            if basis_to == lab["material_basis"]:
                return True
            if (lab["material_basis"], basis_to) not in mat:
                return False
            if lab["loading_basis"] in ("percent", "fraction"):
                e1 = m._eff_basis("fraction", lab["material_basis"])
                e2 = m._eff_basis("fraction", basis_to)
                return e1 == e2 or (e1, e2) in ads
            return True
        return False

    def check_refusal_justified(self, op, before, opc, err):
        """A fully specified, valid conversion whose every factor is available must be carried out."""
        o = op["op"]
        if o in ("convert_pressure", "convert_loading", "convert_material") and op.get("cls") == "valid":
            g = o.split("_")[1]
            b = op.get("mode_to") if g == "pressure" else op.get("basis_to")
            if self.step_possible(before, g, b, op["unit_to"]):
                self.fail("possible-conversion-refused", f"after={opc} error={err[1]}", {"before": before, "op": op})
        elif o == "return":
            # the combined call must succeed only if it is possible in EVERY order of its single-quantity steps
            # (the property does not fix the order; pressure is independent of the other two)
            kw = op["kw"]
            for order in (("material", "loading"), ("loading", "material")):
                lab = dict(before)
                if not self.step_possible(lab, "pressure", kw["pressure_mode"], kw["pressure_unit"]):
                    return
                lab["pressure_mode"], lab["pressure_unit"] = kw["pressure_mode"], kw["pressure_unit"]
                for g in order:
                    if not self.step_possible(lab, g, kw[g + "_basis"], kw[g + "_unit"]):
                        return
                    lab[g + "_basis"], lab[g + "_unit"] = kw[g + "_basis"], kw[g + "_unit"]
            self.fail("possible-conversion-refused", f"after={opc} error={err[1]}", {"before": before, "op": op})

    # clauses 4 and 6 --------------------------------------------------------
    def diff_snap(self, a, b, ignore_cols=(), ignore_labels=(), ignore_temp=False):
        ch = []
        for k in LABELS:
            if k not in ignore_labels and a["labels"][k] != b["labels"][k]:
                ch.append("label:" + k)
        if not ignore_temp and a["_temperature"] != b["_temperature"]:
            ch.append("_temperature")
        if a["columns"] != b["columns"]:
            ch.append("column-order")
        if a["index"] != b["index"]:
            ch.append("index")
        if a["keys"] != b["keys"]:
            ch.append("column-roles")
        if a.get("frame") != b.get("frame"):
            ch.append("frame-attributes")
        for c in a["cols"]:
            if c in ignore_cols:
                continue
            if c not in b["cols"] or a["cols"][c] != b["cols"][c]:
                ch.append("data:" + ("pressure" if c == a["keys"][0] else "loading" if c == a["keys"][1] else c))
        for c in b["cols"]:
            if c not in a["cols"]:
                ch.append("data:+" + c)
        if a["meta"] != b["meta"]:
            ch.append("metadata")
        if a["material"] != b["material"]:
            ch.append("material")
        if a["adsorbate"] != b["adsorbate"]:
            ch.append("adsorbate")
        return ch

    def check_refused_single(self, before_s, after_s, opc, err):
        ch = self.diff_snap(before_s, after_s)
        if ch:
            self.fail("refusal-changed-state", f"after={opc} changed={','.join(ch)}", {"error": err})

    def check_bystanders(self, op, before_s, after_s, opc):
        o = op["op"]
        pk, lk = before_s["keys"]
        if o == "convert_pressure":
            ig = (pk,)
        elif o in ("convert_loading", "convert_material"):
            ig = (lk,)
        elif o == "convert_temperature":
            ig = ()
        elif o in ("convert", "return"):
            ig = (pk, lk)
        else:  # observer
            ig = ()
        ch = self.diff_snap(before_s, after_s, ignore_cols=ig, ignore_labels=LABELS,
                            ignore_temp=(o in ("convert_temperature", "return")))
        if ch:
            self.fail("bystander-changed", f"after={opc} changed={','.join(ch)}", {})

    # clause 5 -----------------------------------------------------------------
    def check_refused_convert(self, op, before, after, opc):
        kw = op["kw"]
        for g, (b, u) in (("pressure", ("pressure_mode", "pressure_unit")), ("material", ("material_basis", "material_unit")),
                          ("loading", ("loading_basis", "loading_unit"))):
            same = all(before[k] == after[k] for k in GROUPS[g])
            if same:
                continue
            requested = bool(kw.get(b) or kw.get(u))
            if not requested or self._target_group(g, kw.get(b), kw.get(u), before, after):
                self.fail("refused-convert-partial-step", f"after={opc} group={g}", {"before": before, "after": after})
                return
        if before["temperature_unit"] != after["temperature_unit"] and op["op"] == "convert":
            self.fail("bystander-label-changed", f"after={opc} label=temperature_unit", {})


# --------------------------------------------------------------------------- execution

def _apply(iso, op):
    o = op["op"]
    v = {"verbose": True} if op.get("verbose") else {}     # the logger is silenced; only the code path differs
    if op.get("positional"):
        # the same call with its arguments given by position, in the documented order
        if o in ("convert_pressure", "convert_loading", "convert_material"):
            first = op["mode_to"] if o == "convert_pressure" else op["basis_to"]
            return getattr(iso, o)(first, op["unit_to"], **v)
        if o in ("convert", "return"):
            order = ["pressure_mode", "pressure_unit", "loading_basis", "loading_unit", "material_basis", "material_unit"]
            kw = op["kw"]
            last = max([i for i, k in enumerate(order) if k in kw], default=-1)
            iso.convert(*[kw.get(k) for k in order[:last + 1]], **v)
            if o == "return":
                iso.convert_temperature(op["temperature_unit"], **v)
            return None
    if o == "convert_pressure":
        iso.convert_pressure(mode_to=op["mode_to"], unit_to=op["unit_to"], **v)
    elif o == "convert_loading":
        iso.convert_loading(basis_to=op["basis_to"], unit_to=op["unit_to"], **v)
    elif o == "convert_material":
        iso.convert_material(basis_to=op["basis_to"], unit_to=op["unit_to"], **v)
    elif o == "convert_temperature":
        iso.convert_temperature(op["unit_to"], **v)
    elif o == "convert":
        iso.convert(**op["kw"], **v)
    elif o == "return":
        iso.convert(**op["kw"], **v)
        iso.convert_temperature(op["temperature_unit"], **v)
    elif o == "observe":
        ads = iso.data(branch="ads")
        if len(ads) >= 2:
            if op["what"] == "loading_at":
                ps = ads[iso.pressure_key]
                x = ps.min() + op["frac"] * (ps.max() - ps.min())
                iso.loading_at(x, interpolation_type=op["kind"])
            else:
                ls = ads[iso.loading_key]
                x = ls.min() + op["frac"] * (ls.max() - ls.min())
                iso.pressure_at(x, interpolation_type=op["kind"])
    else:
        raise ValueError(o)


def _sub_world(world, k):
    """World-like dict of isotherm k (0 = main, 1 = sibling of the same adsorbate at another temperature)."""
    if k == 0:
        return world
    sib = world["sibling"]
    return {"adsorbates": world["adsorbates"], "iso": sib["iso"], "T_K": sib["T_K"]}


def _register_after_ghosts(world):
    """Other user gases lived, were used and died before the world's gas is defined; the world's Adsorbate object is
    created until it sits at the address one of them had (bounded) - a coincidence no result may depend on."""
    import gc
    import pygaps
    from sim.worlds import build
    ghosts = []
    for g in world["ghost_gases"]:
        a = pygaps.Adsorbate(g["name"], backend_name=g["backend_name"])
        for fn in (lambda: a.saturation_pressure(g["T"]), lambda: a.molar_mass(), lambda: a.liquid_density(g["T"])):
            try:
                fn()
            except Exception:
                pass
        ghosts.append(a)
    addresses = {id(a) for a in ghosts}
    del a, fn
    ghosts.clear()
    gc.collect()
    held = []
    hit = False
    spec = world["adsorbates"][0]
    for _ in range(80):
        cand = build.make_adsorbate(spec)
        if id(cand) in addresses:
            hit = True
            break
        held.append(cand)
    pygaps.ADSORBATE_LIST.append(cand)
    del held
    gc.collect()
    return hit


def execute(world, consts, rs=None, ops=None, n_ops=None):
    """Run a history (generated from rs, or the fixed list ops) in THIS process (a forked child).

    consts is a list, one entry per isotherm of the world (main isotherm, optional sibling)."""
    from sim.worlds import build
    reused = _register_after_ghosts(world) if world.get("ghost_gases") else None
    if reused is None:
        build.register_world({"adsorbates": world["adsorbates"]})
    n_iso = 2 if world.get("sibling") else 1
    isos = [build.make_isotherm(_sub_world(world, k)["iso"]) for k in range(n_iso)]
    orcs = [Oracle(_sub_world(world, k), consts[k]) for k in range(n_iso)]
    if world.get("decoy_material"):
        build.make_material(world["decoy_material"], register=True)
    rng = random.Random(rs) if ops is None else None
    executed = []
    events = []
    counters = {}
    edges = set()
    reps = set()
    viol = None

    def count(k, n=1):
        counters[k] = counters.get(k, 0) + n

    if reused is not None:
        count("probe:gas-defined-after-other-user-gases-died")
        if reused:
            count("probe:adsorbate-at-address-of-dead-one")

    # the freshly built isotherms must themselves satisfy clauses 1-2 (else the world is at fault, not pyGAPS)
    for iso, orc in zip(isos, orcs):
        orc.check_valid(iso, "construct")
        if orc.viol is None:
            orc.check_consistent(iso, "construct")
        if orc.viol is not None and orc.viol["kind"].startswith("C02/temperature"):
            orc.viol = None      # a wrong kelvin temperature is the library's doing: the first call's check reports it
        if orc.viol is not None:
            from sim.core.proc import HarnessError
            raise HarnessError("world does not satisfy the oracle at construction: " + json.dumps(orc.viol)[:800])

    starts = [dict(_sub_world(world, k)["iso"]["units"]) for k in range(n_iso)]
    expected = [dict(st) for st in starts]   # labels each isotherm should have (tracks only successful, valid states)
    step = 0
    next_return = rng.randint(4, 8) if rng else None
    total = n_ops if n_ops is not None else (rng.randint(6, 20) if rng else len(ops))
    while True:
        if ops is not None:
            if step >= len(ops):
                break
            op = ops[step]
        else:
            if step >= total:
                break
            k = 1 if (n_iso == 2 and rng.random() < 0.4) else 0
            if step == total - 1 or step == next_return:
                op = return_op(starts[k])
                next_return = step + rng.randint(4, 8)
            else:
                op = gen_op(rng, expected[k])
            if k:
                op["i"] = k
            if rng.random() < 0.04:
                # the isotherm (or its adsorbate) is copied in the middle of its history and the history goes on with the copy
                op = {"op": "recopy", "how": rng.choice(["deepcopy", "pickle", "adsorbate_copy"])}
                if k:
                    op["i"] = k
            if rng.random() < 0.12:
                op["verbose"] = True
            if rng.random() < 0.15 and op["op"] not in ("observe", "recopy"):
                op["positional"] = True
        step += 1
        k = op.get("i", 0) if op.get("i", 0) < n_iso else 0
        iso, orc, start = isos[k], orcs[k], starts[k]
        executed.append(op)
        if op["op"] == "recopy":
            # a copy is the same isotherm: same labels, same data, and the history continues on it as on the original.
            # (A copy the library cannot make - the pinned tree cannot copy an adsorbate whose backend state exists - is
            # no copy: the history continues on the original.)
            import copy as _copy
            import pickle as _pickle
            before_s = snapshot(iso)
            try:
                if op["how"] == "deepcopy":
                    new = _copy.deepcopy(iso)
                elif op["how"] == "pickle":
                    new = _pickle.loads(_pickle.dumps(iso))
                else:
                    new = iso
                    new.adsorbate = _copy.copy(iso.adsorbate)
                made = True
            except Exception:
                made = False
            count("op:recopy")
            count("probe:isotherm-copied-mid-history" if made else "probe:copy-refused-by-library")
            if made:
                if op["how"] != "adsorbate_copy" and n_iso == 2 and new.adsorbate is not isos[1 - k].adsorbate:
                    pass        # the copy has its own Adsorbate now: nothing is shared with the sibling any more
                isos[k] = iso = new
                after_s = snapshot(iso)
                ch = [c for c in orc.diff_snap(before_s, after_s) if c not in ("adsorbate", "material")]
                if before_s["adsorbate"][1] != after_s["adsorbate"][1] or before_s["material"][1] != after_s["material"][1]:
                    ch.append("adsorbate-or-material-content")
                if ch:
                    orc.fail("copy-differs", f"how={op['how']} changed={','.join(ch)}", {})
                if orc.viol is not None:
                    viol = orc.viol
                    break
            events.append(["recopy", k, None, ["copied" if made else "copy-refused"], ""])
            continue
        before_s = snapshot(iso)
        others_before = [snapshot(x) for j, x in enumerate(isos) if j != k]
        before = before_s["labels"]
        opc = op_class(op, before)
        err = None
        try:
            _apply(iso, op)
        except Exception as e:  # any exception is a refusal
            err = dg.canon_error(e)
        after_s = snapshot(iso)
        after = after_s["labels"]
        events.append([op["op"], k, err, [after[x] for x in LABELS], dg.sha([after_s["cols"], after_s["_temperature"]])[:16]])
        count("ops")
        count("op:" + op["op"])
        if n_iso == 2:
            count("ops-in-two-isotherm-worlds")
        if op["op"] == "observe":
            orc.check_bystanders(op, before_s, after_s, opc)
            ch = orc.diff_snap(before_s, after_s)
            if ch and orc.viol is None:
                orc.fail("observer-changed-state", f"after={opc} changed={','.join(ch)}", {})
        elif err is not None:
            count("refused")
            count("refused:" + err[1])
            reps.add("refuse|" + "|".join(str(before[x]) for x in LABELS[:6]) + "|" + opc)
            if op["op"] in ("convert", "return"):
                valid = orc.check_valid(iso, opc)
                if valid and orc.viol is None:
                    orc.check_consistent(iso, opc)
                if orc.viol is None:
                    orc.check_refused_convert(op, before, after, opc)
                if orc.viol is None:
                    orc.check_bystanders(op, before_s, after_s, opc)
                if any(before[x] != after[x] for x in LABELS):
                    count("probe:refusal-inside-convert-after-completed-step")
            else:
                orc.check_refused_single(before_s, after_s, opc, err)
            if orc.viol is None:
                orc.check_refusal_justified(op, before, opc, err)
        else:
            count("accepted")
            valid = orc.check_valid(iso, opc)
            if valid and orc.viol is None:
                orc.check_consistent(iso, opc)
            if orc.viol is None:
                orc.check_target(op, before, after, opc)
            if orc.viol is None:
                orc.check_bystanders(op, before_s, after_s, opc)
            if orc.viol is None and op["op"] == "return":
                count("probe:return-trip-executed")
                if any(after[x] != start[x] for x in LABELS):
                    orc.fail("return-labels-differ", f"after={opc}", {"after": after, "start": start})
            if orc.viol is None:
                b6 = "|".join(str(before[x]) for x in LABELS)
                a6 = "|".join(str(after[x]) for x in LABELS)
                if b6 != a6:
                    edges.add(b6 + ">" + a6)
                reps.add(a6)
                if op["op"] == "convert_material" and before["loading_basis"] in ("percent", "fraction") \
                        and before["material_basis"] != after["material_basis"]:
                    count("probe:fraction-basis-material-change")
                if op.get("cls") == "unit_only":
                    count("probe:omitted-basis")
                if op.get("cls") == "basis_only":
                    count("probe:omitted-unit")
                if k and executed[:-1] and executed[-2].get("i", 0) != k:
                    count("probe:conversion-right-after-one-on-the-sibling")
        if err is not None and op.get("cls") in ("wrong_unit", "bad_basis"):
            count("probe:impossible-target-refused")
        # a conversion of one isotherm never touches another one (they may share the Adsorbate object)
        if orc.viol is None:
            others_after = [snapshot(x) for j, x in enumerate(isos) if j != k]
            for ob, oa in zip(others_before, others_after):
                ch = orc.diff_snap(ob, oa)
                if ch:
                    orc.fail("other-isotherm-changed", f"after={opc} changed={','.join(ch)}", {})
        if orc.viol is not None:
            viol = orc.viol
            viol["step"] = step
            break
        if err is None or op["op"] in ("convert", "return"):
            expected[k] = dict(after)
    res = {"digest": dg.sha(events), "counters": counters,
           "sets": {"edges": sorted(edges), "reps": sorted(reps)},
           "violations": [], "n_ops": len(executed)}
    if viol is not None:
        viol["replay"] = {"world": world, "ops": executed}
        res["violations"].append(viol)
    res["executed"] = executed
    res["events"] = events
    return res


def _child_run(world, consts, rs, keep):
    r = execute(world, consts, rs=rs)
    if not keep and not r["violations"]:
        r.pop("executed", None)
        r.pop("events", None)
    return r


def _child_replay(world, consts, ops):
    return execute(world, consts, ops=ops)


def all_consts(ctx, world):
    out = [get_consts(ctx, world)]
    if world.get("sibling"):
        out.append(get_consts(ctx, _sub_world(world, 1)))
    return out


def _plain(world):
    """The same unit configuration, temperature, adsorbate and material with the plainest possible data."""
    w = copy.deepcopy(world)
    w.pop("sibling", None)
    w.pop("decoy_material", None)
    iso = w["iso"]
    n = len(iso["pressure"])
    iso.update(pressure=[0.5 * (i + 1) for i in range(n)], loading=[0.25 * (i + 1) for i in range(n)], branch="ads",
               other={}, meta={}, route="arrays")
    for k in ("index", "keys", "branch_in_frame"):
        iso.pop(k, None)
    return w


def _try_build(world):
    from sim.worlds import build
    build.register_world({"adsorbates": world["adsorbates"]})
    try:
        build.make_isotherm(world["iso"])
        return {"ok": True}
    except Exception as e:
        return {"ok": False, "error": dg.canon_error(e)}


def run(ctx, index):
    rs = ctx.rs(index)
    rng = random.Random(rs)
    world = gen_world(rng, index)
    probe = fork_call(_try_build, (world,), timeout=60)["result"]
    if probe is not None and not probe["ok"]:
        # the constructor refuses the generated isotherm.  If it also refuses the plainest isotherm of the same unit
        # configuration / temperature, a valid start representation is not constructible: that is reportable.
        plain = fork_call(_try_build, (_plain(world),), timeout=60)["result"]
        if plain is not None and not plain["ok"]:
            lab = world["iso"]["units"]
            v = {"kind": "C02/valid-start-refused",
                 "signature": f"C02/valid-start-refused error={plain['error'][1]} temperature_unit={lab['temperature_unit']!r}",
                 "detail": {"units": lab, "temperature": world["iso"]["temperature"], "error": plain["error"]},
                 "replay": {"world": _plain(world), "ops": []}}
            return {"digest": dg.sha(["unbuildable", plain["error"]]), "counters": {"world-refused-by-constructor": 1},
                    "sets": {}, "violations": [v]}
        return {"digest": dg.sha(["skipped", probe["error"]]), "counters": {"world-skipped-unusual-data-refused": 1},
                "sets": {}, "violations": []}
    consts = all_consts(ctx, world)
    keep = index < 3
    out = fork_call(_child_run, (world, consts, rs ^ 0x5DEECE66D, keep), timeout=120)
    if out["result"] is None:
        from sim.core.proc import HarnessError
        raise HarnessError(f"C02 run child died: {out}")
    res = out["result"]
    res["counters"]["world:" + world["ads_class"]] = 1
    res["counters"]["matworld:" + world["mat_class"]] = 1
    if keep:
        res["sample"] = {"run": index, "start": world["iso"]["units"], "adsorbate": world["iso"]["adsorbate"],
                         "T_K": world["T_K"], "material": world["iso"]["material"], "points": len(world["iso"]["pressure"]),
                         "sibling": bool(world.get("sibling")),
                         "history": [[e[0], e[1], ("refused:" + e[2][1]) if e[2] else "ok", e[3]] for e in res.get("events", [])]}
    res.pop("executed", None)
    res.pop("events", None)
    return res


def replay(ctx, rep):
    world = rep["world"]
    probe = fork_call(_try_build, (world,), timeout=60)["result"]
    if probe is not None and not probe["ok"]:
        lab = world["iso"]["units"]
        return {"kind": "C02/valid-start-refused",
                "signature": f"C02/valid-start-refused error={probe['error'][1]} temperature_unit={lab['temperature_unit']!r}",
                "detail": {"units": lab, "error": probe["error"]}}
    consts = all_consts(ctx, world)
    out = fork_call(_child_replay, (world, consts, rep["ops"]), timeout=120)
    if out["result"] is None:
        from sim.core.proc import HarnessError
        raise HarnessError(f"C02 replay child died: {out}")
    vs = out["result"]["violations"]
    return vs[0] if vs else None


def _simplify_worlds(world):
    """Candidate simpler worlds, most aggressive first."""
    iso = world["iso"]
    if iso.get("meta"):
        w = copy.deepcopy(world)
        w["iso"]["meta"] = {}
        yield w
    if iso.get("other"):
        w = copy.deepcopy(world)
        w["iso"]["other"] = {}
        yield w
    if iso.get("branch") != "ads":
        w = copy.deepcopy(world)
        w["iso"]["branch"] = "ads"
        yield w
    n = len(iso["pressure"])
    if n > 3:
        w = copy.deepcopy(world)
        for k in ("pressure", "loading"):
            w["iso"][k] = w["iso"][k][:3]
        for k in list(w["iso"].get("other") or {}):
            w["iso"]["other"][k] = w["iso"]["other"][k][:3]
        if isinstance(w["iso"].get("branch"), list):
            w["iso"]["branch"] = w["iso"]["branch"][:3]
        yield w


def minimise(ctx, rep):
    sig = rep["signature"]
    world = rep["world"]
    if not rep["ops"] and rep.get("kind") == "C02/valid-start-refused":
        return rep, {"note": "nothing to minimise: the start isotherm cannot be built"}
    tests = [0]

    def fails(w, ops):
        tests[0] += 1
        try:
            consts = all_consts(ctx, w)
            out = fork_call(_child_replay, (w, consts, ops), timeout=60)
        except Exception:
            return False
        if out["result"] is None:
            return False
        vs = out["result"]["violations"]
        return bool(vs) and vs[0]["signature"] == sig

    ops = rep["ops"]
    n0 = len(ops)
    ops, _ = ddmin(ops, lambda c: fails(world, c), budget=150)
    changed = True
    while changed:
        changed = False
        for w in _simplify_worlds(world):
            if fails(w, ops):
                world = w
                changed = True
                break
    rep = dict(rep)
    rep["world"] = world
    rep["ops"] = ops
    return rep, {"ops_before": n0, "ops_after": len(ops), "tests": tests[0]}


def coverage(total):
    edges = total["sets"].get("edges", set())
    reps = total["sets"].get("reps", set())
    visited = {r for r in reps if not r.startswith("refuse|")}
    refusals = {r for r in reps if r.startswith("refuse|")}
    c = total["counters"]
    return {
        "evaluations": total["runs"],
        "distinct_nontrivial": len(edges) + len(refusals),
        "rule": ("one evaluation = one generated conversion history (6-20 calls incl. return trips) on one point isotherm; "
                 "distinct_nontrivial = distinct (labels-before -> labels-after) edges traversed by an accepted call that "
                 "changed the representation, plus distinct (representation, refused-call-class) pairs; all counted by the run"),
        "distinct_edges": len(edges),
        "distinct_refusal_pairs": len(refusals),
        "distinct_representations_visited": len(visited),
        "representations_total": 10260,
        "operations": c.get("ops", 0),
        "faults_fired": {k: v for k, v in c.items() if k.startswith("refused")},
        "fault_kinds": "in-band refusals only: missing thermodynamic/material property, supercritical temperature, "
                       "wrong-family or misspelt unit/basis, omitted unit or basis",
        "probes": {k[6:]: v for k, v in c.items() if k.startswith("probe:")},
        "components": {"real": ["pygaps (working tree)", "CoolProp", "pandas", "numpy"], "stubs": [],
                       "wrappers": ["none active for C02 (sqlite seam installed but idle)"]},
    }


def reach_failures(total, tier):
    c = total["counters"]
    need = ["probe:return-trip-executed", "probe:impossible-target-refused", "probe:omitted-unit", "probe:omitted-basis",
            "probe:fraction-basis-material-change", "refused"]
    if total["runs"] < 500:
        return []
    return [k for k in need if c.get(k, 0) == 0]
