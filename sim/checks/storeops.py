"""Session-side execution of SQLite-store operations (shared by C08 and C09).

Runs ONLY inside sessions (forks of the pristine worker).  Operations arrive as
JSON specs, objects are built here from world specs, outcomes go back as
canonical content - no Python object crosses the process boundary.
"""
import hashlib
import json

from sim.core import digest as dg


def content_adsorbate(a):
    return dg.canon(a.to_dict())


def content_material(m):
    return dg.canon(m.to_dict())


def content_isotherm(iso):
    d = iso.to_dict()
    d.pop("material", None)
    if hasattr(iso, "model") and hasattr(iso, "branch"):
        d["branch"] = iso.branch        # what the object says, whether or not to_dict() mentions it
    out = {"type": type(iso).__name__, "d": dg.canon(d), "mname": str(iso.material),
           "mat": dg.canon(iso.material.to_dict()), "aname": str(iso.adsorbate),
           "ads": dg.canon(iso.adsorbate.to_dict())}
    try:
        out["iso_id"] = iso.iso_id
    except Exception as e:  # unhashable content: report, do not die
        out["iso_id"] = "ERR:" + type(e).__name__
    if hasattr(iso, "data_raw"):
        out["data"] = dg.canon(iso.data_raw)
    elif hasattr(iso, "model"):
        out["data"] = dg.canon(iso.model.to_dict())
    else:
        out["data"] = ["none"]
    out["loose"] = loose_key(out)
    # the same without the adsorbate's name (which spelling of a registry gas an isotherm carries is C08's business)
    d2 = dict(d)
    d2.pop("adsorbate", None)
    out["loose_na"] = hashlib.sha256(json.dumps([out["type"], dg.canon(d2), out["mname"], out["data"]], sort_keys=True).encode()).hexdigest()[:20]
    out["temperature"] = dg.canon(iso.to_dict().get("temperature"))
    return out


def loose_key(c):
    """Identity of an isotherm's content apart from its material's properties."""
    return hashlib.sha256(json.dumps([c["type"], c["d"], c["mname"], c["data"]], sort_keys=True).encode()).hexdigest()[:20]


def _scribble_dict(d):
    for k in list(d):
        v = d[k]
        if isinstance(v, list):
            for i in range(len(v)):
                v[i] = "scribbled"
            v.append("scribbled")
        elif isinstance(v, dict):
            _scribble_dict(v)
        d[k] = "scribbled"
    d["scribbled"] = "x"


def scribble(obj):
    """What a caller may do with objects a retrieval handed to it: edit them, in place, every container they own.
    (The Adsorbate of a retrieved isotherm is the process-wide registry entry, not the caller's: left alone.)"""
    props = getattr(obj, "properties", None)
    if isinstance(props, dict):
        _scribble_dict(props)
    if isinstance(getattr(obj, "alias", None), list) and not hasattr(obj, "iso_id"):
        obj.alias.append("scribbled")
    if hasattr(obj, "iso_id"):
        if hasattr(obj, "data_raw"):
            df = obj.data_raw
            for c in df.columns:
                if df[c].dtype.kind == "f":
                    df.loc[:, c] = -7.5
        model = getattr(obj, "model", None)
        if model is not None:
            for k in list(getattr(model, "params", {}) or {}):
                model.params[k] = -7.5
            for rn in ("pressure_range", "loading_range"):
                r = getattr(model, rn, None)
                if isinstance(r, list):
                    for i in range(len(r)):
                        r[i] = -7.5
        mat = getattr(obj, "material", None)
        if mat is not None and isinstance(getattr(mat, "properties", None), dict):
            _scribble_dict(mat.properties)


def _outcome(exc):
    if exc is None:
        return {"outcome": "ok"}
    name = type(exc).__name__
    if name == "ParsingError":
        return {"outcome": "ParsingError", "msg": str(exc)[:200]}
    return {"outcome": "error:" + name, "msg": str(exc)[:200]}


def exec_op(op, dbmap, state, on_failure=None):
    """Execute one store operation; returns a JSON-able reply.

    on_failure, if given, is called INSIDE the except block of a failed operation - while the exception object, its
    traceback and everything they keep alive still exist - and its result is returned under 'held'.  This is the
    caller who retries right in the handler: `try: op() except Exception: op()`."""
    import pygaps
    import pygaps.parsing.sqlite as pgsql
    from sim.worlds import build
    o = op["op"]
    db = dbmap[op["db"]]
    if op.get("path_object"):
        import pathlib
        db = pathlib.Path(db)      # a path given as an object instead of a string names the same file
    reply = {}
    value = None
    vb = bool(op.get("verbose"))    # the library's own progress messages (logger.info) - must not matter
    ck = {}
    conn = None
    if op.get("caller_txn"):
        # the caller owns the connection and the transaction (the `cursor=` route the library uses for its nested calls):
        # nothing may become durable before the caller commits, everything goes when the caller rolls back
        import os
        import sqlite3
        conn = sqlite3.connect(os.fspath(db))
        conn.row_factory = sqlite3.Row
        cur = conn.cursor()
        cur.execute("PRAGMA foreign_keys = ON")
        ck = {"cursor": cur}
    try:
        if o == "adsorbate_to_db":
            a = build.make_adsorbate(op["ads"])
            reply["uploaded"] = content_adsorbate(a)
            pgsql.adsorbate_to_db(a, db_path=db, verbose=vb, **ck, overwrite=op.get("overwrite", False),
                                  autoinsert_properties=op.get("autoinsert_properties", True))
        elif o == "adsorbate_delete_db":
            target = build.make_adsorbate({"name": op["name"]}) if op.get("by") == "object" else op["name"]
            pgsql.adsorbate_delete_db(target, db_path=db, verbose=vb, **ck)
        elif o == "adsorbates_from_db":
            got = pgsql.adsorbates_from_db(db_path=db, verbose=vb, **ck)
            value = [content_adsorbate(a) for a in got]
            if op.get("scribble"):
                for a in got:
                    scribble(a)
        elif o == "material_to_db":
            m = build.make_material(op["mat"])
            reply["uploaded"] = content_material(m)
            pgsql.material_to_db(m, db_path=db, verbose=vb, **ck, overwrite=op.get("overwrite", False),
                                 autoinsert_properties=op.get("autoinsert_properties", True))
        elif o == "material_delete_db":
            target = build.make_material({"name": op["name"]}) if op.get("by") == "object" else op["name"]
            pgsql.material_delete_db(target, db_path=db, verbose=vb, **ck)
        elif o == "materials_from_db":
            got = pgsql.materials_from_db(db_path=db, verbose=vb, **ck)
            value = [content_material(m) for m in got]
            if op.get("scribble"):
                for m in got:
                    scribble(m)
        elif o == "ptype_to_db":
            fn = {"adsorbate": pgsql.adsorbate_property_type_to_db, "material": pgsql.material_property_type_to_db,
                  "isotherm": pgsql.isotherm_property_type_to_db, "isotype": pgsql.isotherm_type_to_db}[op["table"]]
            fn(dict(op["type_dict"]), db_path=db, verbose=vb, **ck, overwrite=op.get("overwrite", False))
        elif o == "ptype_delete_db":
            fn = {"adsorbate": pgsql.adsorbate_property_type_delete_db, "material": pgsql.material_property_type_delete_db,
                  "isotherm": pgsql.isotherm_property_type_delete_db, "isotype": pgsql.isotherm_type_delete_db}[op["table"]]
            fn(op["type"], db_path=db, verbose=vb, **ck)
        elif o == "ptypes_from_db":
            fn = {"adsorbate": pgsql.adsorbate_property_types_from_db, "material": pgsql.material_property_types_from_db,
                  "isotherm": pgsql.isotherm_property_types_from_db, "isotype": pgsql.isotherm_types_from_db}[op["table"]]
            value = [dg.canon(d) for d in fn(db_path=db, verbose=vb, **ck)]
        elif o == "isotherm_to_db":
            if op.get("reuse_edit") and state.get("last_iso") is not None:
                # the caller edits the isotherm object it uploaded last - in place - and uploads that same object again
                iso = state["last_iso"]
                iso.properties.update(op["reuse_edit"])
            else:
                iso = build.make_isotherm(op["iso"])
            state["last_iso"] = iso
            reply["uploaded"] = content_isotherm(iso)
            kw = dict(db_path=db, verbose=vb, **ck, autoinsert_material=op.get("autoinsert_material", True),
                      autoinsert_adsorbate=op.get("autoinsert_adsorbate", True))
            if op.get("via") == "method":
                iso.to_db(**kw)
            else:
                pgsql.isotherm_to_db(iso, **kw)
        elif o == "isotherm_bulk_to_db":
            ups = []
            reply["uploaded_list"] = ups
            for i in range(op["n"]):
                spec = json.loads(json.dumps(op["iso"]))
                spec.setdefault("meta", {})["bulk_k"] = float(i) + 0.5
                iso = build.make_isotherm(spec)
                ups.append(content_isotherm(iso))
                pgsql.isotherm_to_db(iso, db_path=db, verbose=vb, **ck)
                ups[-1]["done"] = True
        elif o == "isotherm_delete_db":
            by = op.get("by", "id")
            if by == "id":
                pgsql.isotherm_delete_db(op["iso_id"], db_path=db, verbose=vb, **ck)
            elif by == "object":
                iso = build.make_isotherm(op["iso"])
                reply["target"] = content_isotherm(iso)
                pgsql.isotherm_delete_db(iso, db_path=db, verbose=vb, **ck)
            else:  # through an isotherm object just retrieved
                got = pgsql.isotherms_from_db(db_path=db, verbose=vb, **ck)
                cs = sorted(((content_isotherm(g), k) for k, g in enumerate(got)), key=lambda t: (t[0]["loose"], t[1]))
                reply["retrieved_n"] = len(cs)
                if cs:
                    c, k = cs[op.get("pick", 0) % len(cs)]
                    reply["target"] = c
                    pgsql.isotherm_delete_db(got[k], db_path=db, verbose=vb, **ck)
        elif o == "isotherms_from_db":
            crit = op.get("criteria") or None
            got = pgsql.isotherms_from_db(criteria=dict(crit) if crit else None, db_path=db, verbose=vb, **ck)
            value = [content_isotherm(g) for g in got]
            if op.get("scribble"):
                for g in got:
                    scribble(g)
        else:
            raise ValueError("unknown store op " + o)
    except Exception as e:  # noqa: BLE001 - every outcome is data
        reply.update(_outcome(e))
        failed = True
        if on_failure is not None:
            reply["held"] = on_failure()
    else:
        reply.update(_outcome(None))
        failed = False
    if conn is not None:
        try:
            if op["caller_txn"] == "commit" and not failed:
                conn.commit()
            else:
                conn.rollback()
        finally:
            conn.close()
    if failed:
        # An exception object keeps its traceback, the traceback keeps pyGAPS' frames, and those keep the cursor of a
        # connection pyGAPS has already closed: until that cycle is collected the connection lingers (and may hold a
        # read lock).  When the collector runs is not something a schedule may depend on: collect now, always.
        import gc
        gc.collect()
    if value is not None:
        reply["value"] = value
    return reply
