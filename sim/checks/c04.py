"""C04 - read-only queries are pure and independent of query history (DESIGN 4.2).

A world of isotherms sharing registry adsorbates is built in a session forked from the
pristine worker; a generated history of read-only calls runs on it.  For every step the
reference outcome comes from a FRESH fork (same world, same preceding mutators, the query
issued as the first query of that process), so the oracle is independent of which caches
exist.  Purity: a full snapshot of every world object and registry entry before/after.
"""
import copy
import json
import random

from sim.core import digest as dg
from sim.core.ddmin import ddmin
from sim.core.proc import HarnessError, Session, fork_call
from sim.worlds import c04world

PROP = "C04"
LEVEL = "exploration"
BATCH = 6
ASSUMPTIONS = [
    "the reference for step j is the same query issued as the first query of a fresh fork of a pristine interpreter "
    "on an identically built world (with the same preceding mutators applied): no knowledge of which caches exist",
    "outcomes compare exactly for structure, strings, ints and error classes, rtol 1e-13 for floats (NaN equals NaN); "
    "on the pinned tree every float compared was bit-identical",
    "cache attributes (interpolators, CoolProp state, loaded kernels / reference curves) are excluded from the purity "
    "snapshot - the property calls them invisible; everything else observable is included",
    "no exception is injected into library code: the property speaks about queries, the fault dimension is refused "
    "queries and unavailable thermodynamic lookups",
]


# Every float compared on the pinned tree so far was bit-identical between the session and the fresh reference; the
# tolerance only forgives last-bit noise.  A solver warm-started from an earlier query (1e-11 .. 1e-9 off) is history
# dependence and must be seen.
RTOL = 1e-13


def tier_runs(tier):
    return 2400 if tier == "quick" else 40000


def tier_budget_s(tier):
    return 1000 if tier == "quick" else 7200


# ----------------------------------------------------------------------------- query generation

KINDS = ["linear", "linear", "nearest", "zero", "slinear", "quadratic", "cubic"]
# the four Horvath-Kawazoe constants only (an adsorbate model the analysis has to refuse or to complete)
HK4 = {"molecular_diameter": 0.34, "polarizability": 1.63e-3, "magnetic_susceptibility": 3.25e-8, "surface_density": 8.52e18}
FILLS = [None, None, 0.0, [0.0, 5.0], "extrapolate"]


def _iso_roles(world):
    r = world["roles"]
    pts = [i for i, s in enumerate(world["isos"]) if s["kind"] == "point"]
    return r, pts


def gen_query(rng, world, heavy_w):
    if rng.random() < 0.04:
        # queries on a small isotherm built on the spot whose first point is (0, 0): divisions by zero and log(0) inside
        # the library, text output - sensitive to any process-wide numeric / printing mode an earlier query left behind
        return {"g": "probe", "q": "zero_point_probe", "what": rng.choice(["spreading", "loading_at", "to_csv", "bet", "dr"])}
    q = _gen_query(rng, world, heavy_w)
    frac = world["roles"].get("fractional")
    if frac is not None and q["g"] in ("access", "interp", "spread", "export") and rng.random() < 0.25:
        q["iso"] = frac      # the isotherm given as a fraction / percentage of the material gets its share of the calls
    return q


def _gen_query(rng, world, heavy_w):
    r, pts = _iso_roles(world)
    isos = world["isos"]
    fam = r.get("family", [])
    groups = ["access", "interp", "interp", "spread", "export", "adsorbate", "model_query" if "model" in r else "interp"]
    if "model" in r:
        groups += ["model_query"]
    if "n2_main" in r:
        groups += ["n2char", "n2char"]
    if fam:
        groups += ["enth", "henry", "fit"]
    if fam and ("partner" in r or "model" in r):
        groups += ["iast"]
    if "usergas_twin" in r and rng.random() < 0.3:
        # "the same" user gas as two distinct Adsorbate objects with other constants: queries that need them, on either
        i = rng.choice([r["usergas"], r["usergas_twin"]])
        what = rng.choice(["pressure", "loading_at", "loading"])
        if what == "pressure":
            return {"g": "access", "q": "pressure", "iso": i, "branch": "ads", "kw": rng.choice([{"pressure_mode": "relative"}, {"pressure_mode": "relative%"}])}
        if what == "loading":
            return {"g": "access", "q": "loading", "iso": i, "branch": "ads",
                    "kw": rng.choice([{"loading_basis": "volume_liquid", "loading_unit": "cm3"}, {"loading_basis": "mass", "loading_unit": "mg"}])}
        return {"g": "interp", "q": "loading_at", "iso": i, "branch": "ads", "kind": "linear", "fill": None, "frac": 0.5,
                "kw": {"pressure_mode": "relative"}}
    g = rng.choice(groups)
    q = {"g": g}
    if g == "access":
        i = rng.choice(pts)
        what = rng.choice(["pressure", "loading", "other_data", "data", "has_branch", "other_keys", "iso_id", "units"])
        q.update(q=what, iso=i, branch=rng.choice([None, "ads", "des", "all", "bad"]))
        if what == "pressure":
            q["kw"] = rng.choice([{}, {"pressure_unit": "kPa"}, {"pressure_mode": "relative"}, {"pressure_mode": "absolute", "pressure_unit": "bar"},
                                  {"limits": [0.1, 0.5]}, {"indexed": True}, {"pressure_unit": "mmol"}])
        elif what == "loading":
            q["kw"] = rng.choice([{}, {"loading_unit": "mol"}, {"loading_basis": "mass", "loading_unit": "g"},
                                  {"material_basis": "volume", "material_unit": "cm3"}, {"loading_basis": "volume_liquid", "loading_unit": "cm3"},
                                  {"limits": [0.5, 3.0]}, {"indexed": True}, {"loading_basis": "percent"}, {"loading_unit": "kPa"},
                                  {"material_unit": "kg"}, {"loading_basis": "fraction"}, {"material_basis": "mass", "material_unit": "kg"}])
        elif what == "other_data":
            q["key"] = rng.choice(["enthalpy", "enthalpy", "nothing"])
    elif g == "interp":
        i = rng.choice(pts)
        what = rng.choice(["loading_at", "loading_at", "pressure_at"])
        q.update(q=what, iso=i, branch=rng.choice(["ads", "ads", "ads", "des"]), kind=rng.choice(KINDS), fill=rng.choice(FILLS),
                 frac=rng.choice([0.5, 0.31, 0.77, 0.05, -0.2, 1.3, [0.2, 0.6]]))
        if what == "loading_at":
            q["kw"] = rng.choice([{}, {}, {"pressure_unit": "kPa", "pressure_mode": "absolute"}, {"pressure_mode": "relative"},
                                  {"loading_unit": "mol"}, {"loading_basis": "mass", "loading_unit": "mg"},
                                  {"material_basis": "volume", "material_unit": "cm3"}, {"pressure_mode": "absolute"},
                                  {"pressure_mode": "relative%"}, {"loading_basis": "volume_liquid", "loading_unit": "cm3"},
                                  {"loading_basis": "percent"}, {"material_basis": "molar", "material_unit": "mmol"}, {"material_unit": "kg"},
                                  {"pressure_unit": "torr", "pressure_mode": "absolute", "loading_basis": "volume_gas", "loading_unit": "L"}])
        else:
            q["kw"] = rng.choice([{}, {}, {"pressure_unit": "Pa"}, {"pressure_mode": "relative"}, {"loading_unit": "mol"},
                                  {"loading_basis": "mass", "loading_unit": "mg"}, {"loading_basis": "mass"}])
    elif g == "spread":
        i = rng.choice(pts)
        q.update(q="spreading_pressure_at", iso=i, branch=rng.choice(["ads", "ads", "des"]), fill=rng.choice(FILLS),
                 frac=rng.choice([0.5, 0.9, 0.02, -0.3, 1.0, 1.4]),
                 kw=rng.choice([{}, {}, {"pressure_unit": "kPa", "pressure_mode": "absolute"}, {"loading_unit": "mol"},
                                {"pressure_mode": "relative"}, {"loading_basis": "mass", "loading_unit": "g"},
                                {"material_basis": "volume", "material_unit": "cm3"}]))
    elif g == "export":
        i = rng.randrange(len(isos))
        q.update(q=rng.choice(["to_dict", "to_json", "to_csv", "to_aif", "str", "repr", "to_xl"]), iso=i)
        if q["q"] == "to_csv" and rng.random() < 0.3:
            q["kw"] = {"separator": ";"}
        if q["q"] == "to_json" and rng.random() < 0.3:
            q["kw"] = {"indent": 2}
    elif g == "adsorbate":
        i = rng.randrange(len(isos))
        q.update(q="adsorbate", iso=i, method=rng.choice(["saturation_pressure", "liquid_density", "gas_density", "molar_mass",
                                                          "surface_tension", "enthalpy_vaporisation", "gas_molar_density",
                                                          "liquid_molar_density", "p_critical", "t_critical", "to_dict",
                                                          "material_to_dict", "formula", "get_prop", "backend_name", "find",
                                                          "print_info", "material_get_prop"]),
                 T=rng.choice([None, None, 77.355, 120.0, 273.15, 298.15, 500.0]), calculate=rng.choice([True, True, False]),
                 unit=rng.choice([None, None, "bar"]))
    elif g == "model_query":
        q.update(q=rng.choice(["m_loading_at", "m_pressure_at", "m_spreading_pressure_at", "m_pressure", "m_loading"]), iso=r["model"],
                 x=rng.choice([0.5, 1.5, 4.0, [0.2, 2.0], [0.4, 3.9], [1.0, 3.0], 0.0]),
                 kw=rng.choice([{}, {}, {"pressure_unit": "kPa"}, {"loading_unit": "mol"}, {"pressure_mode": "relative"}]))
        if q["q"] == "m_spreading_pressure_at":
            q["kw"] = rng.choice([{}, {}, {"pressure_unit": "kPa"}])
        if q["q"] in ("m_pressure", "m_loading"):
            q["points"] = rng.choice([60, 20, 5])
    elif g == "n2char":
        i = r["n2_main"] if rng.random() < 0.8 or "n2_ref" not in r else r["n2_ref"]
        heavy = rng.random() < heavy_w
        what = rng.choice(["area_BET", "area_BET", "area_langmuir", "t_plot", "t_plot", "alpha_s", "dr_plot", "psd_mesoporous", "psd_mesoporous",
                           "psd_microporous"] + (["da_plot", "psd_dft"] if heavy else []))
        if rng.random() < 0.08:
            what = "psd_dft"      # with a user-supplied kernel file (a good one, or one with a spreadsheet error in a cell)
            q.update(q=what, iso=i, kw={"kernel": rng.choice(["@BADKERNEL", "@BADKERNEL", "@GOODKERNEL"])})
            return q
        if rng.random() < 0.05:
            # the kernel given in other units than it is stored in (the next plain call must not inherit them)
            q.update(q="psd_dft", iso=i, kw=rng.choice([{"kernel_units": {"loading_basis": "volume_gas", "loading_unit": "cm3"}},
                                                        {"kernel_units": {"loading_unit": "mmoles"}},
                                                        {"kernel_units": {"pressure_mode": "relative%"}},
                                                        {"bspline_order": 0}, {"bspline_order": 0}]))
            return q
        if rng.random() < 0.05:
            # an adsorbate model the analysis has to complete or refuse (the caller's own dict, re-used from call to call)
            q.update(q="psd_microporous", iso=i, kw={"adsorbate_model": HK4})
            return q
        q.update(q=what, iso=i)
        if what in ("area_BET", "area_langmuir"):
            q["kw"] = rng.choice([{}, {}, {"p_limits": [0.05, 0.3]}, {"branch": "des"}, {"p_limits": [0.5, 0.1]}])
        elif what == "t_plot":
            q["kw"] = rng.choice([{}, {"thickness_model": "Halsey"}, {"thickness_model": "SiO2 Jaroniec/Kruk/Olivier"},
                                  {"thickness_model": "carbon black Kruk/Jaroniec/Gadkaree"}, {"t_limits": [0.3, 0.8]}, {"thickness_model": "nope"},
                                  {"thickness_model": "@ISO:%d" % r.get("n2_ref", i)}])     # an isotherm object as thickness model
        elif what == "alpha_s":
            q["ref"] = r.get("n2_ref", i)
            q["kw"] = rng.choice([{}, {"reference_area": "langmuir"}, {"reducing_pressure": 0.3}, {"reference_area": 120.0}])
        elif what in ("dr_plot", "da_plot"):
            q["kw"] = rng.choice([{}, {"p_limits": [0, 0.1]}, {"branch": "des"}])
            if what == "da_plot":
                q["kw"] = rng.choice([{"exp": 2.5}, {}, {"p_limits": [0, 0.1], "exp": 3}])
        elif what == "psd_mesoporous":
            q["kw"] = rng.choice([{}, {"psd_model": "BJH"}, {"psd_model": "DH"}, {"branch": "ads"}, {"pore_geometry": "slit"},
                                  {"thickness_model": "Halsey"}, {"kelvin_model": "Kelvin-KJS", "branch": "ads"}, {"psd_model": "nope"},
                                  {"pore_geometry": "sphere"}, {"meniscus_geometry": "hemispherical"}, {"meniscus_geometry": "cylindrical", "branch": "ads"},
                                  {"p_limits": [0.2, 0.9]}, {"psd_model": "BJH", "thickness_model": "SiO2 Jaroniec/Kruk/Olivier"},
                                  {"thickness_model": "@ISO:%d" % r.get("n2_ref", i), "branch": "ads"}])
        elif what == "psd_microporous":
            ar_like = {"molecular_diameter": 0.34, "polarizability": 1.63e-3, "magnetic_susceptibility": 3.25e-8,
                       "surface_density": 8.52e18, "liquid_density": 1.4, "adsorbate_molar_mass": 39.948}
            solid = {"molecular_diameter": 0.31, "polarizability": 1.9e-3, "magnetic_susceptibility": 9.5e-8, "surface_density": 2.4e19}
            q["kw"] = rng.choice([{}, {"psd_model": "HK-CY"}, {"psd_model": "RY"}, {"pore_geometry": "cylinder"}, {"material_model": "AlSiOxideIon"},
                                  {"p_limits": [0, 0.2]}, {"adsorbate_model": ar_like}, {"adsorbate_model": ar_like, "psd_model": "RY"},
                                  {"material_model": solid}, {"material_model": "AlPhOxideIon", "pore_geometry": "sphere"},
                                  {"psd_model": "RY-CY"}, {"branch": "des"}, {"psd_model": "nope"}, {"adsorbate_model": HK4}, {"adsorbate_model": HK4}])
        elif what == "psd_dft":
            q["kw"] = rng.choice([{}, {"bspline_order": 3}, {"branch": "des"}, {"bspline_order": 0}, {"bspline_order": 0},
                                  {"kernel_units": {"loading_basis": "volume_gas", "loading_unit": "cm3"}},
                                  {"kernel_units": {"loading_unit": "mmoles"}}, {"kernel_units": {"pressure_mode": "relative%"}},
                                  {"p_limits": [0.0, 0.5]}, {"kernel": "nope"}, {"kernel": "@GOODKERNEL"}, {"kernel": "@BADKERNEL"},
                                  {"kernel": "@BADKERNEL"}])
    elif g == "enth":
        what = rng.choice(["isosteric_enthalpy", "enthalpy_sorption_whittaker", "enthalpy_sorption_whittaker", "initial_enthalpy_point",
                           "initial_enthalpy_comp"])
        q.update(q=what)
        if what == "isosteric_enthalpy":
            q["isos"] = fam
            q["kw"] = rng.choice([{}, {"loading_points": [0.5, 1.0, 1.5]}, {"branch": "des"}, {"loading_points": [0.05, 9.0]}])
        elif what == "enthalpy_sorption_whittaker":
            q["iso"] = rng.choice(fam + ([r["model"]] if "model" in r else []))
            q["kw"] = rng.choice([{}, {}, {"model": "Langmuir"}, {"model": "Langmuir"}, {"loading": [0.5, 1.0]}, {"model": "Henry"}])
        else:
            q["iso"] = rng.choice(fam)
            q["kw"] = {"enthalpy_key": "enthalpy"}
    elif g == "henry":
        q.update(q=rng.choice(["initial_henry_slope", "initial_henry_slope", "initial_henry_virial"]), iso=rng.choice(fam + pts[:1]))
        q["kw"] = rng.choice([{}, {"max_adjrms": 0.05}, {"p_limits": [0, 1.0]}, {"l_limits": [0, 1.5]}, {"branch": "des"}]) \
            if q["q"] == "initial_henry_slope" else rng.choice([{}, {}, {"optimization_params": {"max_nfev": 200}}])
    elif g == "fit":
        heavy = rng.random() < heavy_w
        q.update(q="model_iso", iso=rng.choice(fam),
                 model=rng.choice(["Langmuir", "Henry", "Toth", "DSLangmuir", "Freundlich", ["Henry", "Langmuir"], "Nope"] + (["guess"] if heavy else [])),
                 kw=rng.choice([{}, {}, {"branch": "des"}]))
        if isinstance(q["model"], str) and q["model"] in ("Langmuir", "Henry", "Toth") and rng.random() < 0.4:
            bounds = {"Langmuir": {"K": [0.0, 0.5], "n_m": [0.0, 2.5]}, "Henry": {"K": [0.0, 0.5]},
                      "Toth": {"K": [0.0, 0.5], "n_m": [0.0, 2.5], "t": [0.1, 1.0]}}[q["model"]]
            guess = {"Langmuir": {"K": 0.25, "n_m": 2.0}, "Henry": {"K": 0.25}, "Toth": {"K": 0.25, "n_m": 2.0, "t": 0.9}}[q["model"]]
            q["kw"] = rng.choice([{"param_bounds": bounds}, {"param_bounds": bounds, "param_guess": guess}, {"param_guess": guess},
                                  {"optimization_params": {"max_nfev": 50}}])
    elif g == "iast":
        a = fam[-1]
        b = r.get("partner", r.get("model"))
        if "model_b" in r and rng.random() < 0.5:
            a, b = r["model"], r["model_b"]
        elif "model" in r and rng.random() < 0.4:
            a = r["model"]
            b = r.get("partner", fam[-1])
        what = rng.choice(["iast_point", "iast_point_fraction", "reverse_iast", "iast_binary_svp", "iast_binary_vle"])
        q.update(q=what, isos=[a, b])
        if what == "iast_point":
            q["args"] = [rng.choice([[0.5, 0.5], [1.0, 0.2], [30.0, 30.0]])]
        elif what == "iast_point_fraction":
            q["args"] = [rng.choice([[0.5, 0.5], [0.2, 0.8], [0.5, 0.6]]), rng.choice([1.0, 2.0, 50.0])]
        elif what == "reverse_iast":
            q["args"] = [rng.choice([[0.5, 0.5], [0.3, 0.7]]), rng.choice([1.0, 2.0])]
        elif what == "iast_binary_svp":
            q["args"] = [[0.5, 0.5], [0.5, 1.0, 2.0]]
        else:
            q["args"] = [1.0]
            q["kw"] = {"npoints": 6}
        if what in ("iast_point", "iast_point_fraction") and rng.random() < 0.3:
            q["kw"] = dict(q.get("kw") or {}, **rng.choice([{"adsorbed_mole_fraction_guess": [0.7, 0.3]}, {"warningoff": True}, {"branch": "des"}]))
        if what == "reverse_iast" and rng.random() < 0.3:
            q["kw"] = rng.choice([{"gas_mole_fraction_guess": [0.4, 0.6]}, {"warningoff": True}])
    return q


BURST_KINDS = ["linear", "nearest", "zero", "slinear", "quadratic", "cubic", "previous", "next"]
BURST_FILLS = [None, 0.0, [0.0, 5.0], "extrapolate", 1.5, [1.0, 2.0]]


def gen_burst(rng, world):
    """A long stretch of history in one step: 34-46 interpolation calls with pairwise distinct (branch, kind, fill)
    settings on one isotherm.  Its members are history only (not compared one by one); the steps after it are."""
    _, pts = _iso_roles(world)
    i = rng.choice(pts)
    fn = rng.choice(["loading_at", "loading_at", "pressure_at"])
    combos = [(b, k, f) for b in ("ads", "des") for k in BURST_KINDS for f in BURST_FILLS]
    rng.shuffle(combos)
    qs = [{"g": "interp", "q": fn, "iso": i, "branch": b, "kind": k, "fill": f, "frac": rng.choice([0.5, 0.31, 0.77]), "kw": {}}
          for b, k, f in combos[:rng.randint(34, 46)]]
    return {"g": "burst", "q": "burst", "iso": i, "qs": qs}


def gen_churn(rng, world, heavy_w):
    """Object churn: the query runs on a series of short-lived look-alikes (same labels and metadata, other data) standing
    in for one of its isotherms; they die, the isotherm is built anew from its specification - by a program that loads
    one file after another - and the query follows.  Returns (churn step, the query) or None."""
    r = world["roles"]
    if "n2_main" in r and "n2_ref" in r and rng.random() < 0.3:
        # the comparative analysis: a reference isotherm that comes and goes while the sample stays
        q = {"g": "n2char", "q": "alpha_s", "iso": r["n2_main"], "ref": r["n2_ref"],
             "kw": rng.choice([{}, {}, {"reference_area": "langmuir"}, {"reducing_pressure": 0.3}])}
        return {"g": "churn", "q": "churn", "slot": r["n2_ref"] if rng.random() < 0.7 else r["n2_main"], "n": 16, "query": q}, q
    for attempt in range(16):
        q = gen_query(rng, world, heavy_w)
        if q["g"] in ("mutator", "adsorbate"):
            continue
        if attempt < 8 and not ("ref" in q or q.get("isos") or "@ISO" in json.dumps(q.get("kw") or {})):
            continue        # first look for a query in which an isotherm plays a second role (reference, partner, model)
        slots = [q[k] for k in ("ref", "iso") if isinstance(q.get(k), int)] + list(q.get("isos") or [])
        slots = [k for k in slots if world["isos"][k]["kind"] == "point" and not world["isos"][k].get("adsorbate_object")]
        if slots:
            return {"g": "churn", "q": "churn", "slot": rng.choice(slots), "n": 16, "query": q}, q
    return None


def gen_related(rng, world, prev):
    """A query derived from the previous one: same object, one setting varied (or none) - aims at cache keys."""
    q = copy.deepcopy(prev)
    g = prev["g"]
    if g == "interp":
        what = rng.choice(["same", "same", "branch", "kind", "fill", "other_fn", "x", "kw"])
        if what == "branch":
            q["branch"] = "des" if prev["branch"] == "ads" else "ads"
        elif what == "kind":
            q["kind"] = rng.choice([k for k in KINDS if k != prev["kind"]])
        elif what == "fill":
            q["fill"] = rng.choice([f for f in FILLS if f != prev["fill"]])
        elif what == "other_fn":
            q["q"] = "pressure_at" if prev["q"] == "loading_at" else "loading_at"
            q["kw"] = {}
        elif what == "x":
            q["frac"] = rng.choice([0.5, 0.31, 0.77, 0.05, -0.2, 1.3])
        elif what == "kw":
            q["kw"] = rng.choice([{}, {"loading_unit": "mol"}] if prev["q"] == "loading_at" else [{}, {"pressure_unit": "Pa"}])
        if rng.random() < 0.3:
            q = {"g": "spread", "q": "spreading_pressure_at", "iso": prev["iso"], "branch": q["branch"], "fill": q["fill"],
                 "frac": rng.choice([0.5, 0.9, -0.3, 1.4]), "kw": {}}
        return q
    if g == "spread":
        if rng.random() < 0.5:
            return {"g": "interp", "q": "loading_at", "iso": prev["iso"], "branch": prev["branch"], "kind": rng.choice(KINDS),
                    "fill": rng.choice(FILLS), "frac": rng.choice([0.5, 0.05, -0.2, 1.3]), "kw": {}}
        q["frac"] = rng.choice([0.5, 0.9, 0.02, -0.3, 1.0, 1.4])
        q["fill"] = rng.choice(FILLS)
        return q
    if g == "adsorbate":
        if rng.random() < 0.55:
            q["T"] = rng.choice([t for t in [None, 77.355, 120.0, 273.15, 298.15, 500.0] if t != prev["T"]])
        if rng.random() < 0.5:
            q["method"] = rng.choice(["saturation_pressure", "liquid_density", "gas_density", "surface_tension", "enthalpy_vaporisation",
                                      "gas_molar_density", "liquid_molar_density"])
        if rng.random() < 0.3:
            # another isotherm of the same gas shares the Adsorbate object (and its CoolProp state)
            same = [i for i, sp in enumerate(world["isos"]) if sp["adsorbate"] == world["isos"][prev["iso"]]["adsorbate"]]
            q["iso"] = rng.choice(same)
        return q
    if g == "n2char" and prev["q"] == "psd_microporous":
        # the same analysis with other adsorbate / adsorbent parameter dictionaries (or the same ones again)
        ar_like = {"molecular_diameter": 0.34, "polarizability": 1.63e-3, "magnetic_susceptibility": 3.25e-8,
                   "surface_density": 8.52e18, "liquid_density": 1.4, "adsorbate_molar_mass": 39.948}
        solid = {"molecular_diameter": 0.31, "polarizability": 1.9e-3, "magnetic_susceptibility": 9.5e-8, "surface_density": 2.4e19}
        q["kw"] = rng.choice([{}, {"adsorbate_model": ar_like}, {"material_model": solid}, {"adsorbate_model": ar_like, "material_model": solid},
                              {"psd_model": "RY"}, {"material_model": "AlSiOxideIon"}, dict(prev.get("kw") or {}), dict(prev.get("kw") or {}),
                              {"adsorbate_model": HK4}])
        if (prev.get("kw") or {}).get("adsorbate_model") == HK4 and rng.random() < 0.6:
            q["kw"] = {"adsorbate_model": HK4}
            _, pts = _iso_roles(world)
            q["iso"] = rng.choice(pts)
        elif rng.random() < 0.4:
            # the same analysis, with the caller's same argument objects, on an isotherm of another gas / temperature
            _, pts = _iso_roles(world)
            q["iso"] = rng.choice(pts)
        return q
    if g == "export":
        # another export right after this one (text produced by one must not depend on the other having run)
        q["q"] = rng.choice([x for x in ["to_dict", "to_json", "to_csv", "to_aif", "str", "repr"] if x != prev["q"]])
        q.pop("kw", None)
        npmeta = [i for i, sp in enumerate(world["isos"]) if any(k.endswith("__np") for k in (sp.get("meta") or {}))]
        if npmeta and rng.random() < 0.7:
            q["iso"] = rng.choice(npmeta)          # metadata holding numpy scalars: their text form is what may differ
        elif rng.random() < 0.5 and "n2_main" in world["roles"]:
            q["iso"] = world["roles"]["n2_main"]
        return q
    if g == "model_query":
        if isinstance(prev["x"], list):
            q["x"] = rng.choice([[0.2, 2.0], [0.4, 3.9], [1.0, 3.0], [0.05, 4.4]])
        else:
            q["x"] = rng.choice([0.5, 1.5, 4.0, 4.4])
        if rng.random() < 0.55:
            # the sibling function on the same model (they share whatever the model object keeps between calls)
            q["q"] = rng.choice([f for f in ["m_loading_at", "m_pressure_at", "m_spreading_pressure_at", "m_spreading_pressure_at"]
                                 if f != prev["q"]])
            if q["q"] == "m_spreading_pressure_at":
                q["kw"] = {}
        return q
    if g == "fit" and isinstance(prev.get("model"), str):
        # the same model fitted again without / with other bounds, or the Henry-constant analysis that fits a Henry model
        if rng.random() < 0.3:
            return {"g": "henry", "q": "initial_henry_slope", "iso": prev["iso"], "kw": {}}
        q["kw"] = rng.choice([{}, {}, {"optimization_params": {"max_nfev": 50}}])
        return q
    if g == "n2char" and prev["q"] == "psd_dft":
        if (prev.get("kw") or {}).get("kernel", "").startswith("@") and rng.random() < 0.7:
            return q                                                                       # the same user kernel again
        q["kw"] = rng.choice([{}, {}, {"bspline_order": 3}, dict(prev.get("kw") or {})])   # mostly: the default call next
        return q
    if g == "n2char":
        r = world["roles"]
        if "n2_ref" in r and "n2_main" in r and prev["q"] != "alpha_s" and rng.random() < 0.3:
            # the same analysis on the other nitrogen isotherm (other units): shared kernels / curves must not be altered
            q["iso"] = r["n2_ref"] if prev["iso"] == r["n2_main"] else r["n2_main"]
            return q
        # same analysis again, or its sibling that shares a cached thickness curve / kernel
        if prev["q"] in ("t_plot", "psd_mesoporous") and rng.random() < 0.6:
            q["q"] = "psd_mesoporous" if prev["q"] == "t_plot" else "t_plot"
            q["kw"] = rng.choice([{}, {"thickness_model": "Halsey"}, {"thickness_model": "SiO2 Jaroniec/Kruk/Olivier"},
                                  {"thickness_model": "carbon black Kruk/Jaroniec/Gadkaree"}])
        return q
    return q


def gen_mutator(rng, world):
    r, pts = _iso_roles(world)
    i = rng.choice(pts)
    what = rng.choice(["convert_pressure", "convert_loading", "convert_material", "convert_temperature"])
    if what == "convert_pressure":
        kw = rng.choice([{"mode_to": "absolute", "unit_to": "kPa"}, {"mode_to": "relative"}, {"mode_to": "absolute", "unit_to": "bar"}])
    elif what == "convert_loading":
        kw = rng.choice([{"basis_to": "molar", "unit_to": "mol"}, {"basis_to": "mass", "unit_to": "mg"}, {"basis_to": "molar", "unit_to": "mmol"}])
    elif what == "convert_material":
        kw = rng.choice([{"basis_to": "mass", "unit_to": "kg"}, {"basis_to": "volume", "unit_to": "cm3"}, {"basis_to": "mass", "unit_to": "g"}])
    else:
        kw = rng.choice([{"unit_to": "°C"}, {"unit_to": "K"}])
    return {"g": "mutator", "q": what, "iso": i, "kw": kw}


# ----------------------------------------------------------------------------- query execution (sessions only)

def _point_for_frac(iso, q, axis):
    import numpy
    br = q.get("branch", "ads")
    try:
        data = iso.data(branch=br)
        col = data[iso.pressure_key if axis == "p" else iso.loading_key]
        lo, hi = float(col.min()), float(col.max())
    except Exception:
        lo, hi = 0.1, 1.0
    f = q["frac"]
    if isinstance(f, list):
        return numpy.array([lo + x * (hi - lo) for x in f])
    return lo + f * (hi - lo)


def _fill(v):
    return tuple(v) if isinstance(v, list) else v


def exec_query(objs, q, scratch):
    """Execute one query on the world objects; returns canonical outcome (value or error class)."""
    import pygaps
    import pygaps.characterisation as pgc
    import pygaps.iast as pgi
    import pygaps.modelling as pgm
    name = q["q"]
    try:
        if q["g"] == "mutator":
            getattr(objs[q["iso"]], name)(**q["kw"])
            return ["ok-mutator"]
        if q["g"] == "access":
            iso = objs[q["iso"]]
            if name in ("pressure", "loading"):
                val = getattr(iso, name)(branch=q["branch"], **_kw(q))
            elif name == "other_data":
                val = iso.other_data(q["key"], branch=q["branch"])
            elif name == "data":
                val = iso.data(branch=q["branch"])
            elif name == "has_branch":
                val = iso.has_branch(q["branch"])
            elif name == "other_keys":
                val = list(iso.other_keys)
            elif name == "iso_id":
                val = iso.iso_id
            else:
                val = iso.units
        elif q["g"] == "interp":
            iso = objs[q["iso"]]
            x = _point_for_frac(iso, q, "p" if name == "loading_at" else "l")
            val = getattr(iso, name)(x, branch=q["branch"], interpolation_type=q["kind"], interp_fill=_fill(q["fill"]), **_kw(q))
        elif q["g"] == "spread":
            iso = objs[q["iso"]]
            x = _point_for_frac(iso, q, "p")
            val = iso.spreading_pressure_at(x, branch=q["branch"], interp_fill=_fill(q["fill"]), **_kw(q))
        elif q["g"] == "export":
            iso = objs[q["iso"]]
            if name == "to_dict":
                val = iso.to_dict()
            elif name == "str":
                val = str(iso)
            elif name == "repr":
                val = repr(iso)
            elif name == "to_xl":
                import hashlib
                import os
                p = os.path.join(scratch, "x.xlsx")
                iso.to_xl(p)
                val = os.path.getsize(p) > 0
                os.unlink(p)
            elif name == "to_csv" and q.get("kw"):
                val = iso.to_csv(**q["kw"])
            elif name == "to_json" and q.get("kw"):
                val = iso.to_json(**q["kw"])
            else:
                val = getattr(iso, name)()
        elif q["g"] == "probe":
            iso = pygaps.PointIsotherm(
                pressure=[0.0, 0.05, 0.1, 0.2, 0.35, 0.5, 0.7, 0.9], loading=[0.0, 1.0 / 3.0, 0.6, 0.9, 1.1, 1.3, 1.6, 2.2],
                material="VfProbe", adsorbate="N2", temperature=77.355, pressure_mode="relative", loading_basis="molar",
                loading_unit="mmol", material_basis="mass", material_unit="g", temperature_unit="K", branch="ads")
            w = q["what"]
            if w == "spreading":
                val = iso.spreading_pressure_at(0.3)
            elif w == "loading_at":
                val = [iso.loading_at(0.0), iso.pressure_at(0.0)]
            elif w == "to_csv":
                val = [iso.to_csv(), str(iso)]
            elif w == "bet":
                val = pgc.area_BET(iso, p_limits=(0.0, 0.35))
            else:
                val = pgc.dr_plot(iso, p_limits=(0.0, 0.2))
        elif q["g"] == "adsorbate":
            iso = objs[q["iso"]]
            ads = iso.adsorbate
            m = q["method"]
            T = q["T"] if q["T"] is not None else iso.temperature
            if m == "to_dict":
                val = ads.to_dict()
            elif m == "formula":
                val = ads.formula
            elif m == "backend_name":
                val = ads.backend_name
            elif m == "get_prop":
                val = [ads.get_prop("molar_mass"), ads.get_prop("backend_name")]
            elif m == "find":
                val = [pygaps.Adsorbate.find(ads.name).name, pygaps.Material.find(iso.material.name).name]
            elif m == "print_info":
                import contextlib
                import io
                with contextlib.redirect_stdout(io.StringIO()), contextlib.redirect_stderr(io.StringIO()):
                    val = [ads.print_info(), iso.material.print_info()]
            elif m == "material_get_prop":
                val = [iso.material.get_prop("density"), iso.material.get_prop("molar_mass")]
            elif m == "material_to_dict":
                val = [iso.material.to_dict(), iso.material.density, iso.material.molar_mass]
            elif m in ("molar_mass", "p_critical", "t_critical"):
                val = getattr(ads, m)(calculate=q["calculate"])
            elif m == "saturation_pressure":
                val = ads.saturation_pressure(T, unit=q["unit"], calculate=q["calculate"])
            elif m == "enthalpy_vaporisation":
                val = ads.enthalpy_vaporisation(T, calculate=q["calculate"])
            else:
                val = getattr(ads, m)(T, calculate=q["calculate"])
        elif q["g"] == "model_query":
            iso = objs[q["iso"]]
            import numpy
            x = numpy.array(q["x"]) if isinstance(q["x"], list) else q["x"]
            if name == "m_loading_at":
                val = iso.loading_at(x, **_kw(q))
            elif name == "m_pressure_at":
                val = iso.pressure_at(x, **{k: v for k, v in _kw(q).items()})
            elif name == "m_spreading_pressure_at":
                val = iso.spreading_pressure_at(x, **_kw(q))
            elif name == "m_pressure":
                val = iso.pressure(points=q.get("points", 60), **{k: v for k, v in _kw(q).items() if k.startswith("pressure")})
            else:
                val = iso.loading(points=q.get("points", 60), **{k: v for k, v in _kw(q).items() if k.startswith("loading")})
        elif q["g"] == "n2char":
            iso = objs[q["iso"]]
            kw = _kw(q)
            tm = kw.get("thickness_model")
            if isinstance(tm, str) and tm.startswith("@ISO:"):
                kw["thickness_model"] = objs[int(tm[5:])]
            if name == "alpha_s":
                val = pgc.alpha_s(iso, objs[q["ref"]], **kw)
            else:
                val = getattr(pgc, name)(iso, **kw)
        elif q["g"] == "enth":
            if name == "isosteric_enthalpy":
                val = pgc.isosteric_enthalpy([objs[i] for i in q["isos"]], **_kw(q))
            else:
                val = getattr(pgc, name)(objs[q["iso"]], **_kw(q))
        elif q["g"] == "henry":
            val = getattr(pgc, name)(objs[q["iso"]], **_kw(q))
        elif q["g"] == "fit":
            val = pgm.model_iso(objs[q["iso"]], model=q["model"], **_kw(q))
        elif q["g"] == "iast":
            isos = [objs[i] for i in q["isos"]]
            val = getattr(pgi, name)(isos, *copy.deepcopy(q["args"]), **_kw(q))
        else:
            raise ValueError("unknown query group " + q["g"])
        out = ["value", dg.canon(val)]
        if q["g"] in ("n2char", "enth", "henry", "iast"):
            _scribble_result(val)      # the caller does what it likes with the result it was handed (convert units in place...)
        return out
    except Exception as e:  # noqa: BLE001 - every outcome is data
        return dg.canon_error(e)


def _scribble_result(val, depth=0):
    """In-place edits of a returned analysis result (writable float arrays scaled).  Only results of analyses are
    edited: accessors such as data() / to_dict() hand out live parts of the isotherm by design of the pinned tree."""
    import numpy
    if depth > 4:
        return
    if isinstance(val, numpy.ndarray):
        if val.flags.writeable and val.dtype.kind == "f":
            val *= 10.0
    elif isinstance(val, dict):
        for k in list(val):
            _scribble_result(val[k], depth + 1)       # arrays only: a result may hand out a live dict of the isotherm it was
            # given (enthalpy_sorption_whittaker returns the model's parameter dict) - editing THAT is the caller changing
            # its own isotherm, not a cache becoming visible
    elif isinstance(val, (list, tuple)):
        for x in val:
            _scribble_result(x, depth + 1)


KERNEL_FILES = {}   # "@GOODKERNEL"/"@BADKERNEL" -> path, filled by the session factory


def make_kernel_files(scratch):
    """A user-supplied kernel file (copy of the shipped one) and a malformed one (a spreadsheet error in one cell)."""
    import os
    import pygaps.data
    src = str(pygaps.data.KERNELS["DFT-N2-77K-carbon-slit"])
    text = open(src, encoding="utf8").read()
    good = os.path.join(scratch, "user-kernel.csv")
    bad = os.path.join(scratch, "user-kernel-malformed.csv")
    if not os.path.exists(good):
        with open(good, "w", encoding="utf8") as fh:
            fh.write(text)
        lines = text.splitlines()
        mid = len(lines) // 2
        cells = lines[mid].split(",")
        cells[len(cells) // 2] = "#VALUE!"
        lines[mid] = ",".join(cells)
        with open(bad, "w", encoding="utf8") as fh:
            fh.write("\n".join(lines) + "\n")
    KERNEL_FILES["@GOODKERNEL"] = good
    KERNEL_FILES["@BADKERNEL"] = bad


ARG_POOL = {}    # a caller re-uses ITS OWN argument containers from call to call (per process; forks start with what exists)


def _kw(q):
    kw = dict(q.get("kw") or {})
    for k, v in list(kw.items()):
        if isinstance(v, dict) or (isinstance(v, list) and k not in ("p_limits", "t_limits", "limits")):
            kw[k] = ARG_POOL.setdefault(json.dumps([k, v], sort_keys=True), copy.deepcopy(v))
    if kw.get("kernel") in KERNEL_FILES:
        kw["kernel"] = KERNEL_FILES[kw["kernel"]]
    for k in ("p_limits", "t_limits", "limits"):
        if k in kw and isinstance(kw[k], list):
            kw[k] = tuple(kw[k])
    return kw


def query_class(q):
    """Value-free class of a query (used in signatures and reach measures)."""
    g, name = q["g"], q["q"]
    bits = []
    for k in ("branch", "kind"):
        if k in q and g in ("interp", "spread", "access"):
            bits.append(f"{k}={q[k]}")
    if "fill" in q:
        f = q["fill"]
        bits.append("fill=" + ("None" if f is None else "extrapolate" if f == "extrapolate" else "tuple" if isinstance(f, list) else "number"))
    if "frac" in q and not isinstance(q["frac"], list):
        f = q["frac"]
        bits.append("x=" + ("below-range" if f < 0 else "above-range" if f > 1 else "edge" if f in (0, 1.0) else "inside"))
    if g == "adsorbate":
        bits.append(q["method"])
    if q.get("kw"):
        bits.append("kw=" + "+".join(sorted(q["kw"])))
    if g == "fit":
        bits.append("model=" + (q["model"] if isinstance(q["model"], str) else "list"))
    return name + ("[" + ",".join(bits) + "]" if bits else "")


# ----------------------------------------------------------------------------- purity snapshot

def snapshot(objs):
    import pygaps
    out = {"isos": [], "registry": {}}
    seen_ads = {}
    seen_mat = {}
    for iso in objs:
        s = {"type": type(iso).__name__}
        s["labels"] = {k: getattr(iso, k, "<missing>") for k in iso._unit_params}
        s["_temperature"] = dg.canon(iso._temperature)
        s["meta"] = dg.canon(iso.properties)
        if hasattr(iso, "data_raw"):
            s["data"] = dg.canon(iso.data_raw)
            s["keys"] = [iso.pressure_key, iso.loading_key]
        if hasattr(iso, "model"):
            s["model"] = dg.canon(iso.model.to_dict())
            s["branch"] = getattr(iso, "branch", None)
        # the identifier is read LAST: it is itself a read-only query and must not change what was captured above
        try:
            s["iso_id"] = iso.iso_id
        except Exception as e:
            s["iso_id"] = "ERR:" + type(e).__name__
        s["ads_obj"] = id(iso.adsorbate)
        s["mat_obj"] = id(iso.material)
        seen_ads[id(iso.adsorbate)] = iso.adsorbate
        seen_mat[id(iso.material)] = iso.material
        out["isos"].append(s)
    out["ads"] = {str(k): [a.name, list(a.alias), dg.canon(a.properties)] for k, a in seen_ads.items()}
    out["mats"] = {str(k): [m.name, dg.canon(m.properties)] for k, m in seen_mat.items()}
    out["registry"] = {"n_ads": len(pygaps.ADSORBATE_LIST), "n_mat": len(pygaps.MATERIAL_LIST),
                       "ads_names": dg.sha([a.name for a in pygaps.ADSORBATE_LIST]),
                       "mat_names": dg.sha([m.name for m in pygaps.MATERIAL_LIST]),
                       "ads_props": dg.sha([[a.name, a.alias, dg.canon(a.properties)] for a in pygaps.ADSORBATE_LIST])}
    return out


def snapshot_diff(a, b):
    """Value-free list of what differs between two snapshots."""
    ch = []
    for i, (x, y) in enumerate(zip(a["isos"], b["isos"])):
        for k in ("iso_id", "_temperature", "meta", "model", "branch", "ads_obj", "mat_obj", "keys"):
            if x.get(k) != y.get(k):
                ch.append(f"{k}")
        for k in x["labels"]:
            if x["labels"][k] != y["labels"].get(k):
                ch.append("label:" + k)
        if x.get("data") != y.get("data"):
            dx, dy = x.get("data"), y.get("data")
            if dx and dy and dx[1] == dy[1] and dx[2] == dy[2]:
                for cname, cx, cy in zip(dx[1], dx[3], dy[3]):
                    if cx != cy:
                        nm = cname[1]
                        nm = "pressure" if nm == x["keys"][0] else "loading" if nm == x["keys"][1] else nm
                        ch.append("data:" + str(nm))
            else:
                ch.append("data:shape")
    if a["ads"] != b["ads"]:
        ch.append("adsorbate")
    if a["mats"] != b["mats"]:
        ch.append("material")
    if a["registry"] != b["registry"]:
        ch.append("registry")
    out = []
    for c in ch:
        if c not in out:
            out.append(c)
    return out


# ----------------------------------------------------------------------------- sessions

def _build(world):
    from sim.worlds import build
    build.register_world({"adsorbates": world["adsorbates"]})
    return [build.make_isotherm(s) for s in world["isos"]]


def churn(objs, world, k, n, q, scratch):
    """See gen_churn.  The new object is built until it occupies the address one of the dead look-alikes had (bounded):
    where an object lives is nothing a result may depend on, and a user's program gets there by luck."""
    import gc
    from sim.worlds import build
    spec = world["isos"][k]
    ghosts = []
    for j in range(n):
        g = copy.deepcopy(spec)
        g["loading"] = [v * (1.0 + 0.07 * (j + 1)) for v in g["loading"]]
        ghosts.append(build.make_isotherm(g))
    for gobj in ghosts:
        o2 = list(objs)
        o2[k] = gobj
        exec_query(o2, q, scratch)
        del o2
    addresses = {id(g) for g in ghosts}
    del gobj
    ghosts.clear()
    objs[k] = None
    gc.collect()
    held = []
    hit = False
    for _ in range(60):
        cand = build.make_isotherm(spec)
        if id(cand) in addresses:
            hit = True
            break
        held.append(cand)
    objs[k] = cand
    del held
    gc.collect()
    return {"address_reused": hit}


def _sut_factory(world, scratch):
    def factory():
        objs = _build(world)

        def handler(msg):
            if msg["cmd"] == "observe":
                # taking the snapshot (labels, data, model, metadata, then the identifier) is itself a sequence of
                # read-only accesses: doing it twice on the fresh world must give the same picture
                a = snapshot(objs)
                b = snapshot(objs)
                return {"changed": snapshot_diff(a, b)}
            if msg["cmd"] == "burst":
                before = snapshot(objs)
                for q in msg["qs"]:
                    exec_query(objs, q, scratch)
                return {"changed": snapshot_diff(before, snapshot(objs))}
            if msg["cmd"] == "churn":
                return churn(objs, world, msg["slot"], msg["n"], msg["query"], scratch)
            if msg["cmd"] == "q":
                before = snapshot(objs)
                out = exec_query(objs, msg["q"], scratch)
                after = snapshot(objs)
                return {"out": out, "changed": snapshot_diff(before, after), "cache": cache_state(objs, msg["q"])}
            raise ValueError(msg["cmd"])
        return handler
    return factory


def _ref_child(objs, mutators, q, scratch):
    for m in mutators:
        exec_query(objs, m, scratch)
    return exec_query(objs, q, scratch)


def _zygote_factory(world, scratch):
    """World zygote: builds the world, never runs a query itself; forks one child per reference evaluation."""
    def factory():
        objs = _build(world)

        def handler(msg):
            if msg["cmd"] == "ref":
                r = fork_call(_ref_child, (objs, msg["mutators"], msg["q"], scratch), timeout=300)
                if r["result"] is None:
                    return {"died": r}
                return {"out": r["result"]}
            raise ValueError(msg["cmd"])
        return handler
    return factory


def cache_state(objs, q):
    """Abstract cache state BEFORE... read tolerantly, for the reach measure only (never for a verdict)."""
    try:
        iso = objs[q["iso"]] if "iso" in q else objs[q["isos"][0]]
        li = getattr(iso, "l_interpolator", None)
        pi = getattr(iso, "p_interpolator", None)
        st = getattr(iso.adsorbate, "_state", None)
        import sys
        mt = sys.modules.get("pygaps.characterisation.models_thickness")
        pk = sys.modules.get("pygaps.characterisation.psd_kernel")
        return "|".join([
            "L:" + (f"{li.interp_branch},{li.interp_kind},{'f' if li.interp_fill is not None else 'n'}" if li is not None else "-"),
            "P:" + (f"{pi.interp_branch},{pi.interp_kind}" if pi is not None else "-"),
            "S:" + ("warm" if st is not None else "cold"),
            "T:" + str(len(getattr(mt, "_LOADED", {}) or {})),
            "K:" + str(len(getattr(pk, "_LOADED", {}) or {})),
        ])
    except Exception:
        return "?"


# ----------------------------------------------------------------------------- run / replay

def execute(ctx, world, rng=None, steps=None, cfg=None):
    from sim.core import env
    scratch = env.new_run_dir("c04")
    make_kernel_files(scratch)       # written once by the worker (plain file copies), inherited by the forked sessions
    sut = Session(_sut_factory(world, scratch), name="SUT")
    zyg = Session(_zygote_factory(world, scratch), name="Z")
    events = []
    counters = {}
    pairs = set()
    executed = []
    viol = None
    stats = dg.DiffStats()

    def count(k, n=1):
        counters[k] = counters.get(k, 0) + n

    try:
        mutators = []
        obs = sut.call({"cmd": "observe"}, timeout=120)
        if obs["changed"]:
            viol = {"kind": "C04/impure-query", "signature": f"C04/impure-query by=iso_id/to_dict changed={','.join(obs['changed'])}",
                    "detail": {"query": "reading identifier, dictionary, data and labels of the freshly built world twice",
                               "changed": obs["changed"]}}
        n = cfg["n_steps"] if steps is None else len(steps)
        if viol is not None:
            n = 0
        prev = None
        prev_err = False
        pending = None
        for j in range(n):
            if steps is None:
                if pending is not None:
                    q, pending = pending, None          # the same query again, right after a conversion of its isotherm
                elif cfg.get("burst") and j == cfg["burst_at"]:
                    q = gen_burst(rng, world)
                    b = q["qs"][0]
                    pending = {"g": "interp", "q": b["q"], "iso": q["iso"], "branch": "ads", "kind": rng.choice(KINDS), "fill": 2.5,
                               "frac": rng.choice([0.5, 0.31]), "kw": {}}
                elif cfg.get("churn") and j == cfg["churn_at"]:
                    ch = gen_churn(rng, world, cfg["heavy_w"])
                    q, pending = ch if ch is not None else (gen_query(rng, world, cfg["heavy_w"]), None)
                elif cfg["mutators"] and prev is not None and prev["g"] in ("interp", "spread") and rng.random() < 0.2:
                    q = gen_mutator(rng, world)
                    q["iso"] = prev["iso"]
                    pending = copy.deepcopy(prev)
                elif cfg["mutators"] and rng.random() < 0.12:
                    q = gen_mutator(rng, world)
                elif prev is not None and prev["g"] in ("n2char", "enth", "henry", "fit", "iast", "export") and rng.random() < 0.12:
                    q = {"g": "probe", "q": "zero_point_probe", "what": rng.choice(["spreading", "loading_at", "to_csv", "bet", "dr"])}
                elif prev is not None and prev["g"] in ("interp", "spread", "adsorbate", "n2char", "fit", "model_query", "export") \
                        and rng.random() < cfg["related_p"]:
                    q = gen_related(rng, world, prev)
                else:
                    q = gen_query(rng, world, cfg["heavy_w"])
            else:
                q = steps[j]
            executed.append(q)
            if q["g"] == "burst":
                r = sut.call({"cmd": "burst", "qs": q["qs"]}, timeout=600)
                count("bursts")
                count("probe:long-interpolation-history")
                events.append(["burst", len(q["qs"])])
                if r["changed"]:
                    viol = {"kind": "C04/impure-query", "signature": f"C04/impure-query by=burst changed={','.join(r['changed'])}",
                            "detail": {"changed": r["changed"]}}
                    break
                prev = None
                continue
            if q["g"] == "churn":
                r = sut.call({"cmd": "churn", "slot": q["slot"], "n": q["n"], "query": q["query"]}, timeout=600)
                count("churns")
                count("churn:" + q["query"]["q"] + (":second-role" if q["slot"] != q["query"].get("iso") else ""))
                if r["address_reused"]:
                    count("probe:new-isotherm-at-address-of-dead-one")
                events.append(["churn", q["query"]["q"]])
                prev = None
                continue
            qc = query_class(q)
            r = sut.call({"cmd": "q", "q": q}, timeout=600)
            out = r["out"]
            if q["g"] == "mutator":
                ref = zyg.call({"cmd": "ref", "mutators": mutators, "q": q}, timeout=600)
                if "died" in ref:
                    raise HarnessError("reference child died: " + json.dumps(ref)[:300])
                if ref["out"] == ["ok-mutator"] and out == ["ok-mutator"]:
                    mutators.append(q)
                elif ref["out"] != out:
                    viol = {"kind": "C04/history-dependent-mutator", "signature": f"C04/history-dependent-mutator victim={qc}",
                            "detail": {"now": out, "fresh": ref["out"]}}
                count("mutators")
                events.append([qc, out[0]])
                if viol:
                    break
                prev = q
                continue
            count("queries")
            count("q:" + q["q"])
            count("outcome:" + ("error" if dg.is_error(out) else "value"))
            if dg.is_error(out):
                count("refused:" + out[1])
            # purity
            if r["changed"]:
                viol = {"kind": "C04/impure-query", "signature": f"C04/impure-query by={q['q']} changed={','.join(r['changed'])}",
                        "detail": {"query": q, "changed": r["changed"]}}
                events.append([qc, "impure"])
                break
            # history independence
            ref = zyg.call({"cmd": "ref", "mutators": mutators, "q": q}, timeout=600)
            if "died" in ref:
                raise HarnessError("reference child died: " + json.dumps(ref)[:300])
            d = dg.diff(out, ref["out"], rtol=RTOL, stats=stats)
            events.append([qc, out[0] if not dg.is_error(out) else out[1], dg.sha(out)[:16]])
            pairs.add(r["cache"] + "||" + qc.split("[")[0] + "|" + (q.get("branch") or "") + "|" + str(q.get("kind", "")))
            if prev is not None:
                if prev_err:
                    count("probe:query-after-refused-query")
                if prev["g"] == "mutator":
                    count("probe:query-after-mutator")
                    if len(executed) >= 3 and executed[-3].get("g") in ("interp", "spread") and executed[-3].get("iso") == q.get("iso") \
                            and executed[-3].get("q") == q.get("q"):
                        count("probe:same-query-before-and-after-conversion")
                if prev["g"] == "interp" and q["g"] in ("interp", "spread") and prev.get("iso") == q.get("iso"):
                    same = (prev.get("branch"), prev.get("kind"), json.dumps(prev.get("fill"))) == (q.get("branch"), q.get("kind"), json.dumps(q.get("fill")))
                    count("probe:same-interpolator-reused" if same else "probe:interpolator-replaced")
                if prev["g"] == "adsorbate" and q["g"] == "adsorbate" and prev.get("T") != q.get("T"):
                    count("probe:adsorbate-query-at-other-temperature")
            if "K:1" in r["cache"] or "T:1" in r["cache"] or "T:2" in r["cache"]:
                count("probe:kernel-or-reference-curve-cached")
            if d is not None:
                now = out[1] if dg.is_error(out) else "value"
                fr = ref["out"][1] if dg.is_error(ref["out"]) else "value"
                viol = {"kind": "C04/history-dependent",
                        "signature": f"C04/history-dependent victim={qc} fresh={fr} now={now}",
                        "detail": {"path": d, "step": j, "query": q}}
                break
            prev = q
            prev_err = dg.is_error(out)
            count("out:" + q["q"] + (":error" if prev_err else ":value"))
    finally:
        sut.kill()
        zyg.kill()
        import shutil
        shutil.rmtree(scratch, ignore_errors=True)
    counters["floats_compared"] = stats.floats
    counters["floats_bit_exact"] = stats.exact
    res = {"digest": dg.sha(events), "counters": counters, "sets": {"pairs": sorted(pairs)}, "violations": []}
    if viol is not None:
        viol["replay"] = {"world": world, "steps": executed}
        res["violations"].append(viol)
    res["events"] = events
    return res


def make_cfg(rng, tier):
    cfg = {"n_steps": rng.randint(2, 14), "mutators": rng.random() < 0.4,
           "heavy_w": 0.15 if tier == "quick" else 0.35, "related_p": rng.choice([0.0, 0.3, 0.6])}
    r = rng.random()
    if r < 0.05:
        cfg["burst"], cfg["burst_at"] = True, rng.randrange(0, max(1, cfg["n_steps"] - 1))
    elif r < 0.25 and not cfg["mutators"]:
        # (a rebuilt isotherm equals the reference's only if nothing converted the original)
        cfg["churn"], cfg["churn_at"] = True, rng.randrange(0, max(1, cfg["n_steps"] - 1))
    return cfg


def run(ctx, index):
    rng = random.Random(ctx.rs(index))
    world = c04world.gen_world(rng)
    cfg = make_cfg(rng, ctx.tier)
    res = execute(ctx, world, rng=rng, cfg=cfg)
    if index < 2:
        res["sample"] = {"run": index, "world": [[s["kind"], s["adsorbate"], s["temperature"], len(s.get("pressure", []))] for s in world["isos"]],
                         "history": res["events"]}
    res.pop("events", None)
    return res


def replay(ctx, rep):
    res = execute(ctx, rep["world"], steps=rep["steps"])
    return res["violations"][0] if res["violations"] else None


def minimise(ctx, rep):
    sig = rep["signature"]
    tests = [0]

    def fails(steps):
        tests[0] += 1
        try:
            res = execute(ctx, rep["world"], steps=steps)
        except HarnessError:
            return False
        return bool(res["violations"]) and res["violations"][0]["signature"] == sig

    steps = rep["steps"]
    n0 = len(steps)
    steps, _ = ddmin(steps, fails, budget=60)
    rep = dict(rep)
    rep["steps"] = steps
    return rep, {"steps_before": n0, "steps_after": len(steps), "tests": tests[0]}


def coverage(total):
    c = total["counters"]
    pairs = total["sets"].get("pairs", set())
    return {
        "evaluations": total["runs"],
        "distinct_nontrivial": len(pairs),
        "rule": ("one evaluation = one query history (2-14 read-only calls, optionally interleaved with conversions) on a world "
                 "of 2-7 isotherms sharing registry adsorbates, every step compared with the same call issued first in a fresh "
                 "process; distinct_nontrivial = distinct (abstract cache state before the query, query class) pairs, where the "
                 "cache state (interpolator key, CoolProp state warm/cold, loaded kernels / reference curves) is read for "
                 "measurement only"),
        "queries": c.get("queries", 0),
        "mutators": c.get("mutators", 0),
        "faults_fired": {k: v for k, v in c.items() if k.startswith("refused:")},
        "fault_kinds": "in-band only: refused queries (bad branch / unit / model / range) and unavailable thermodynamic lookups "
                       "(no backend, supercritical temperature, partial property sets)",
        "outcomes": {k[8:]: v for k, v in c.items() if k.startswith("outcome:")},
        "query_kinds": {k[2:]: v for k, v in c.items() if k.startswith("q:")},
        "probes": {k[6:]: v for k, v in c.items() if k.startswith("probe:")},
        "floats_compared": c.get("floats_compared", 0),
        "floats_bit_exact": c.get("floats_bit_exact", 0),
        "components": {"real": ["pygaps (working tree)", "CoolProp", "scipy", "pandas", "numpy"], "stubs": [],
                       "wrappers": ["none active for C04"]},
    }


def reach_failures(total, tier):
    c = total["counters"]
    if total["runs"] < 200:
        return []
    need = ["probe:same-interpolator-reused", "probe:interpolator-replaced", "probe:query-after-refused-query",
            "probe:query-after-mutator", "probe:adsorbate-query-at-other-temperature", "outcome:value", "outcome:error"]
    return [k for k in need if c.get(k, 0) == 0]
