"""C08 - the SQLite store behaves as a keyed collection over any operation history (DESIGN 4.3).

Two client sessions (forks of the pristine worker, private registries and caches)
and one or two database files (durable, shared).  The PRNG decides which session
acts, on which file, and when a session is killed and restarted with only the
files surviving.  Oracle: dictionary model (sim/models/refstore.py) + raw-sqlite
dump invariance + retrieval equality.
"""
import copy
import json
import os
import random
import shutil

from sim.core import digest as dg
from sim.core import env
from sim.core.ddmin import ddmin
from sim.core.proc import HarnessError, Session, fork_call
from sim.models import refstore as rs
from sim.seams import sqlseam

PROP = "C08"
LEVEL = "exploration"
BATCH = 10
ASSUMPTIONS = [
    "interleaving is at operation granularity (each public call is one connection and one transaction); two "
    "connections interleaved statement-by-statement would hit SQLite's busy timer, which no property mentions",
    "required value domain: finite floats, booleans in isotherm metadata, text that is not the spelling of a number "
    "or TRUE/FALSE, float/text data columns, default row labels, absolute pressure and unit-bearing loading bases; "
    "outside it only 'refused without change, or accepted and returned equal' is required",
    "an isotherm references its material and adsorbate by name: on retrieval the material's properties are expected "
    "to be the file's entry for that name; identifier equality with the uploader's object is required only when the "
    "uploader described the material exactly as the file does",
    "the raw table dump is used only for invariance-after-refusal and integrity checks; content is judged through "
    "the public *_from_db functions",
]

# ----------------------------------------------------------------------------- universe

UADS = {
    "VfAlpha": [{"alias": ["vfa", "alpha gas"], "molar_mass": 30.5, "formula": "Vf_{a}"},
                {"alias": ["vfa"], "molar_mass": 31.25, "verif_p1": 2.5}],
    "VfBeta": [{"molar_mass": 44.25, "verif_p1": 1.5}, {"molar_mass": 44.25}],
    "VfGamma": [{"alias": ["vfg", "gamma-x"], "backend_name": "NOPE_GAS", "verif_p2": "text value"},
                {"alias": ["vfg"], "verif_p3": 7.125}],
    "VfDelta": [{}, {"verif_p3": 0.5}],
    "VfAlphaX": [{"molar_mass": 61.5}, {}],     # a name that has another key ('VfAlpha') as prefix
    "VfEps": [{"id": "lot-3", "type": "vapour", "value": 1.25}, {"ads_id": 2.5, "id": "lot-4"}],   # properties named like columns
}
REG_GASES = ["N2", "CO2", "CH4"]   # resolved through the in-memory registry
UMATS = {
    "VfM1": [{}, {"density": 1.5}],
    "VfM2": [{"density": 2.125, "molar_mass": 812.5}, {"density": 3.25, "molar_mass": 812.5, "batch": "b-7"}],
    "VfM3": [{"batch": "K12", "verif_m1": 0.25}, {"batch": "K13"}],
    "VfM4": [{}],
    "VfM10": [{"density": 0.75}, {}],          # a name that has another key ('VfM1') as prefix
    "vfm3": [{"batch": "lower-case twin"}, {}],  # differs from 'VfM3' in capitalisation only: a different key
    "Vf M'%_é": [{"batch": "it's 100% \"odd\""}, {}],   # quote, percent, underscore, blank, non-ASCII
    "VfM5": [{"id": "lot-9", "type": "powder", "value": 3.5}, {"id": "lot-10", "mat_id": 4.5}],   # properties named like columns
}
# a database file is named by its path, whatever characters the path contains
ODD_FILE_NAMES = ["batch #3.db", "what?.db", "set%31.db", "a b'c.db", "x&y=z.db", "ünï cödé.db", "semi;colon.db"]
PTYPES = {
    "adsorbate": ["verif_p1", "verif_p2", "verif_p3", "verif_px", "molar_mass", "alias"],
    "material": ["density", "molar_mass", "batch", "verif_m1", "verif_mx", "verif_my"],
    "isotherm": ["user", "t_act", "flag", "verif_i1", "verif_i2", "verif_i3"],
    "isotype": ["vf_t1", "vf_t2", "vf_t3", "isotherm", "pointisotherm", "modelisotherm"],
}
UNIVERSE = {"ads": list(UADS) + ["nitrogen", "carbon dioxide", "methane"], "mats": list(UMATS)}

OPEN_VALUES = [None, ["x", "y"], float("nan"), True, False]     # booleans: a REAL column gives back 1.0 / 0.0


def tier_runs(tier):
    return 2400 if tier == "quick" else 40000


def tier_budget_s(tier):
    return 900 if tier == "quick" else 5400


# ----------------------------------------------------------------------------- templates (built by the tree under test)

def _build_templates(dirpath):
    from pygaps.utilities.sqlite_db_creator import db_create
    from pygaps.utilities.sqlite_db_pragmas import PRAGMAS
    from pygaps.utilities.sqlite_utilities import db_execute_general
    import pygaps.parsing.sqlite as pgsql
    full = os.path.join(dirpath, "full.db")
    bare = os.path.join(dirpath, "bare.db")
    db_create(full)
    for pragma in PRAGMAS:
        db_execute_general(pragma, bare)
    for t in ("isotherm", "pointisotherm", "modelisotherm"):
        pgsql.isotherm_type_to_db({"type": t}, db_path=bare, verbose=False)
    return {"full": full, "bare": bare}


def _read_model(path):
    """Initial dictionary model of a file = what the public retrieval functions say."""
    from sim.checks import storeops
    state = {}
    dbmap = {"X": path}
    m = {"ads": {}, "mats": {}, "ptypes": {}}
    for c in storeops.exec_op({"op": "adsorbates_from_db", "db": "X"}, dbmap, state)["value"]:
        m["ads"][rs._cd(c)["name"][1]] = c
    for c in storeops.exec_op({"op": "materials_from_db", "db": "X"}, dbmap, state)["value"]:
        m["mats"][rs._cd(c)["name"][1]] = c
    for t in ("adsorbate", "material", "isotherm", "isotype"):
        tab = {}
        # a retrieval that fails on a fresh file is modelled as an empty table: the dictionary model of a
        # fresh file has no entries, and the first generated operation on that table will expose the failure
        for c in storeops.exec_op({"op": "ptypes_from_db", "db": "X", "table": t}, dbmap, state).get("value", []):
            d = rs._cd(c)
            ent = {"description": _plain(d.get("description"))}
            if t != "isotype":
                ent["unit"] = _plain(d.get("unit"))
            tab[d["type"][1]] = ent
        m["ptypes"][t] = tab
    n_iso = len(storeops.exec_op({"op": "isotherms_from_db", "db": "X"}, dbmap, state)["value"])
    if n_iso:
        raise HarnessError("template contains isotherms")
    return m


def _plain(v):
    if v is None or v[0] == "none":
        return None
    return v[1]


def worker_init(ctx):
    d = env.new_run_dir("c08tpl")
    r = fork_call(_build_templates, (d,), timeout=300)
    if not r["result"]:
        raise HarnessError("template build failed: " + json.dumps(r)[:500])
    ctx.memo["templates"] = r["result"]
    models = {}
    for name, path in r["result"].items():
        rr = fork_call(_read_model, (path,), timeout=120)
        if not rr["result"]:
            raise HarnessError("template model read failed")
        models[name] = rr["result"]
    ctx.memo["template_models"] = models
    if ctx.prop == "C08" and ctx.tier == "thorough" and "auditor" not in ctx.memo:
        ctx.memo["auditor"] = Auditor()


class Auditor:
    """Separate interpreter under another PYTHONHASHSEED; reads scratch databases only (thorough tier)."""

    def __init__(self):
        import subprocess
        from sim.core import driver
        e = driver._worker_env("C08", hashseed="987654321")
        self.p = subprocess.Popen([driver.PYTHON, "-u", os.path.join(env.VERIF_ROOT, "sim", "auditor_main.py")],
                                  stdin=subprocess.PIPE, stdout=subprocess.PIPE, env=e, cwd=env.VERIF_ROOT, text=True, bufsize=1)
        hello = json.loads(self.p.stdout.readline() or "{}")
        if not hello.get("ok") or hello.get("hashseed") != "987654321":
            raise HarnessError("auditor failed to start: " + json.dumps(hello))

    def read(self, dbmap, ops):
        self.p.stdin.write(json.dumps({"dbmap": dbmap, "ops": ops}) + "\n")
        self.p.stdin.flush()
        line = self.p.stdout.readline()
        if not line:
            raise HarnessError("auditor died")
        return json.loads(line)["replies"]


def new_file_model(ctx, template):
    tm = ctx.memo["template_models"][template]
    fm = rs.FileModel()
    fm.ads = copy.deepcopy(tm["ads"])
    fm.mats = copy.deepcopy(tm["mats"])
    fm.ptypes = copy.deepcopy(tm["ptypes"])
    return fm


# ----------------------------------------------------------------------------- raw audit (independent connection)

def dump_db(path):
    """Sorted dump of every table + integrity pragmas, through an un-instrumented connection."""
    import sqlite3
    try:
        return _dump_db(path)
    except sqlite3.DatabaseError as e:
        # a file SQLite cannot read any more (e.g. "database disk image is malformed" after a crash without a journal) is a
        # finding about the file, not a failure of the harness
        return {"tables": {"__unreadable__": [[type(e).__name__]]}, "integrity": ["unreadable: " + str(e)[:80]], "fk": []}


def _dump_db(path):
    con = sqlseam.ORIG_CONNECT(path)
    try:
        tables = [r[0] for r in con.execute("select name from sqlite_master where type='table' order by name")]
        out = {}
        for t in tables:
            rows = con.execute(f'select * from "{t}"').fetchall()
            out[t] = sorted([list(map(_cell, r)) for r in rows], key=lambda r: json.dumps(r))
        # the schema is content too: an index, trigger, view or column that an operation creates on the side, and the
        # header fields an application may use, change how the next operation behaves
        out["__schema__"] = sorted([list(map(_cell, r)) for r in con.execute(
            "select type, name, tbl_name, sql from sqlite_master")], key=lambda r: json.dumps(r))
        out["__header__"] = [[k, con.execute("pragma " + k).fetchone()[0]] for k in ("user_version", "application_id")]
        integ = [r[0] for r in con.execute("pragma integrity_check")]
        fk = [list(map(str, r)) for r in con.execute("pragma foreign_key_check")]
    finally:
        con.close()
    return {"tables": out, "integrity": integ, "fk": fk}


def _cell(v):
    if isinstance(v, float):
        return ["f", v.hex()]
    if isinstance(v, bytes):
        return ["by", v.hex()]
    return v


def dump_sha(d):
    return dg.sha(d["tables"])


def dump_clean(d):
    return d["integrity"] == ["ok"] and not d["fk"]


# ----------------------------------------------------------------------------- generation

def _ads_spec(rng, name=None, open_values=False):
    name = name or rng.choice(list(UADS))
    props = copy.deepcopy(rng.choice(UADS[name]))
    if open_values and rng.random() < 0.5:
        props["verif_p3"] = rng.choice(OPEN_VALUES)
    return dict(name=name, **props)


LOOSE = True   # adsorbate / material properties: numbers compare by value across bool / int / float


def _mat_spec(rng, name=None, open_values=False):
    name = name or rng.choice(list(UMATS))
    props = copy.deepcopy(rng.choice(UMATS[name]))
    if open_values and rng.random() < 0.5:
        props["verif_m1"] = rng.choice(OPEN_VALUES[:2] + OPEN_VALUES[3:])
    return dict(name=name, **props)


def _iso_spec(rng, cfg):
    kind = rng.choices(["point", "base", "model"], [60, 20, 20])[0]
    mname = rng.choice(list(UMATS))
    how = rng.choices(["name", "dict"], [55, 45])[0]
    material = mname if how == "name" else _mat_spec(rng, mname)
    if isinstance(material, dict) and len(material) == 1:
        material = mname
    ads = rng.choice(list(UADS) + REG_GASES + REG_GASES)
    T = rng.choice([77.355, 273.15, 298.15, 303.0, 298.15, 298.1500000001])   # incl. two temperatures 1e-10 apart
    units = {"pressure_mode": "absolute", "pressure_unit": rng.choice(["bar", "kPa", "Pa"]),
             "loading_basis": rng.choice(["molar", "mass", "volume_gas"]), "loading_unit": None,
             "material_basis": rng.choice(["mass", "mass", "volume"]), "material_unit": None,
             "temperature_unit": rng.choice(["K", "K", "°C"])}
    units["loading_unit"] = {"molar": "mmol", "mass": "mg", "volume_gas": "cm3"}[units["loading_basis"]]
    units["material_unit"] = {"mass": "g", "volume": "cm3"}[units["material_basis"]]
    if cfg["open_domain"] and rng.random() < 0.15:
        if rng.random() < 0.5:
            units["pressure_mode"], units["pressure_unit"] = "relative", None
        else:
            units["loading_basis"], units["loading_unit"] = "fraction", None
    meta = {}
    pool = {"user": "alice", "t_act": 150.5, "flag": True, "verif_i1": "xyz", "verif_i2": 0.125, "verif_i3": False,
            "comment": "second run", "machine": "M-3", "verif_one": 1.0, "verif_zero": 0.0,
            "id": "user-key-named-id", "iso_type": "calorimetry", "type": "user-type", "value": 2.5}   # keys named like table columns
    for k in rng.sample(sorted(pool), rng.randint(0, 4)):
        meta[k] = pool[k]
    if cfg["open_domain"] and rng.random() < 0.1:
        meta["verif_open"] = rng.choice(OPEN_VALUES[:2])
    temp = T if units["temperature_unit"] == "K" else T - 273.15
    spec = {"kind": kind, "material": material, "adsorbate": ads, "temperature": temp, "units": units, "meta": meta}
    if kind == "point":
        n = rng.randint(4, 8)
        base_p = [0.1 * (i + 1) for i in range(n)]
        # incl. values with 16 significant digits.  (No magnitudes below 1e-8: the identifier rounds data to 8 decimals, so
        # different tiny data sets are by design one key - a question of what identity means, C05, not of the store.)
        scale = rng.choice([1.0, 1.0, 2.5, 1.0 / 3.0, 7.0 / 9.0])
        nd = 6 if scale in (1.0, 2.5) else 18
        p = [round(x * scale, nd) for x in base_p]
        l = [round(1.5 * x / (1 + x) * scale + 0.125 * scale, nd) for x in base_p]
        if rng.random() < 0.4:
            for j in range(rng.randint(1, n - 2)):
                src = n - 2 - j
                p.append(round(p[src] * 0.99, 6))
                l.append(round(l[src] * 1.05, 6))
        npts = len(p)
        bsel = rng.choices(["guess", "ads", "des", "list"], [55, 15, 15, 15])[0]
        branch = bsel
        if bsel == "list":
            k = rng.randint(0, npts)
            branch = [False] * k + [True] * (npts - k)
        other = {}
        if rng.random() < 0.35:
            other["enthalpy"] = [round(10 + 0.5 * i, 3) for i in range(npts)]
        if rng.random() < 0.15:
            other["note"] = [rng.choice(["a", "b", "eq"]) for _ in range(npts)]
        spec.update(pressure=p, loading=l, branch=branch, other=other)
        if rng.random() < 0.08:
            spec["pressure"][0] = spec["pressure"][0] + 1e-3   # differs in one data point only
        if cfg["open_domain"] and rng.random() < 0.2:
            # whole-number data as true integers (outside the required domain: refused, or returned equal)
            k = len(spec["pressure"])
            spec["pressure"] = [i + 1 for i in range(k)]
            spec["loading"] = [2 * i + 1 for i in range(k)]
            spec["branch"] = "ads"
            spec["other"] = {}
    elif kind == "model":
        if rng.random() < 0.35:
            spec["meta"]["branch"] = "des"      # the branch a model isotherm describes is content
        if rng.random() < 0.5:
            spec["model"] = {"name": "Langmuir", "rmse": 0.0125, "parameters": {"K": rng.choice([1.5, 2.25, 1.0 / 7.0, -0.5]), "n_m": 3.5},
                             "pressure_range": [0.1, 5.0], "loading_range": [0.25, 3.0]}
        else:
            spec["model"] = {"name": "Henry", "rmse": 0.5, "parameters": {"K": rng.choice([0.75, 1.25, -2.5])},
                             "pressure_range": [0.1, 2.0], "loading_range": [0.125, 2.5]}
    return spec


def make_cfg(rng, tier):
    n_files = rng.choice([1, 1, 2])
    cfg = {
        "files": {"F1": rng.choices(["bare", "full"], [70, 30])[0]},
        "n_sessions": rng.choice([1, 2, 2]),
        "n_ops": rng.randint(8, 40),
        "restart_p": rng.choice([0.0, 0.03, 0.08]),
        "open_domain": rng.random() < 0.3,
        "bulk": rng.random() < (0.004 if tier == "quick" else 0.01),
        "weights": {},
    }
    if n_files == 2:
        cfg["files"]["F2"] = rng.choices(["bare", "full"], [75, 25])[0]
    cfg["replace_p"] = rng.choice([0.0, 0.0, 0.04])
    if rng.random() < 0.3:
        names = rng.sample(ODD_FILE_NAMES, 2)
        cfg["fnames"] = {"F1": names[0], "F2": names[1]}
    base = {"adsorbate_to_db": 10, "adsorbate_delete_db": 5, "adsorbates_from_db": 3,
            "material_to_db": 10, "material_delete_db": 5, "materials_from_db": 4,
            "ptype_to_db": 6, "ptype_delete_db": 4, "ptypes_from_db": 3,
            "isotherm_to_db": 28, "isotherm_delete_db": 10, "isotherms_from_db": 12}
    # swarm: drop a random subset of operation kinds
    for k in list(base):
        if k != "isotherm_to_db" and rng.random() < 0.2:
            base[k] = 0
    cfg["weights"] = base
    return cfg


def gen_op(rng, cfg, models, favourites):
    db = rng.choice(sorted(cfg["files"]))
    fm = models[db]
    session = "A" if cfg["n_sessions"] == 1 else rng.choice(["A", "B"])
    kinds = [k for k, w in cfg["weights"].items() if w > 0]
    o = rng.choices(kinds, [cfg["weights"][k] for k in kinds])[0]
    op = {"op": o, "db": db, "session": session}
    if rng.random() < 0.2:
        op["path_object"] = True
    if rng.random() < 0.15:
        op["verbose"] = True
    if o in ("adsorbates_from_db", "materials_from_db", "isotherms_from_db") and rng.random() < 0.3:
        op["scribble"] = True      # the caller edits, in place, the objects it was handed
    if o == "adsorbate_to_db":
        op["ads"] = _ads_spec(rng, open_values=cfg["open_domain"] and rng.random() < 0.2)
        op["overwrite"] = rng.random() < 0.3
        op["autoinsert_properties"] = rng.random() < 0.75
    elif o == "adsorbate_delete_db":
        present = sorted(n for n in fm.ads if n in UNIVERSE["ads"])
        op["name"] = rng.choice(present) if present and rng.random() < 0.7 else rng.choice(UNIVERSE["ads"])
        op["by"] = rng.choice(["name", "object"])
        if rng.random() < 0.12:
            # a key that is nobody's NAME in the file - an alias of a stored gas, or another spelling of it
            op["name"] = rng.choice(["vfa", "alpha gas", "vfg", "gamma-x", "N2", "n2", "CO2", "vfalpha", "NITROGEN"])
            op["by"] = "name"
    elif o == "material_to_db":
        op["mat"] = _mat_spec(rng, open_values=cfg["open_domain"] and rng.random() < 0.2)
        op["overwrite"] = rng.random() < 0.3
        op["autoinsert_properties"] = rng.random() < 0.75
    elif o == "material_delete_db":
        present = sorted(fm.mats)
        op["name"] = rng.choice(present) if present and rng.random() < 0.7 else rng.choice(UNIVERSE["mats"])
        op["by"] = rng.choice(["name", "object"])
    elif o in ("ptype_to_db", "ptype_delete_db", "ptypes_from_db"):
        t = rng.choice(["adsorbate", "material", "isotherm", "isotype"])
        op["table"] = t
        if o == "ptype_to_db":
            td = {"type": rng.choice(PTYPES[t])}
            if rng.random() < 0.6:
                td["description"] = rng.choice(["first description", "another text"])
            if t != "isotype" and rng.random() < 0.6:
                td["unit"] = rng.choice(["g/mol", "nm", "K"])
            op["type_dict"] = td
            op["overwrite"] = rng.random() < 0.35
        elif o == "ptype_delete_db":
            present = sorted(fm.ptypes[t])
            op["type"] = rng.choice(present) if present and rng.random() < 0.6 else rng.choice(PTYPES[t])
    elif o == "isotherm_to_db":
        if favourites and rng.random() < 0.55:
            op["iso"] = copy.deepcopy(rng.choice(favourites))
            if op["iso"]["kind"] == "point" and rng.random() < 0.15:
                # the same rows in reverse order (a different isotherm: the order of points is content)
                iso = op["iso"]
                for key in ("pressure", "loading"):
                    iso[key] = list(reversed(iso[key]))
                iso["other"] = {c: list(reversed(v)) for c, v in (iso.get("other") or {}).items()}
                if isinstance(iso.get("branch"), list):
                    iso["branch"] = list(reversed(iso["branch"]))
                elif iso.get("branch") == "guess":
                    iso["branch"] = "ads" 
        else:
            op["iso"] = _iso_spec(rng, cfg)
            if len(favourites) < 5:
                favourites.append(copy.deepcopy(op["iso"]))
        op["autoinsert_material"] = rng.random() < 0.75
        op["autoinsert_adsorbate"] = rng.random() < 0.75
        op["via"] = rng.choice(["function", "function", "method"])
        if rng.random() < 0.1:
            op["reuse_edit"] = {"verif_edit": rng.choice([0.75, 1.25, "edited"])}   # see storeops: same object, edited in place
    elif o == "isotherm_delete_db":
        r = rng.random()
        if r < 0.4:
            op["by"] = "retrieved"
            op["pick"] = rng.randint(0, 50)
        elif r < 0.7 and fm.isos:
            op["by"] = "id"
            op["iso_id"] = rng.choice(sorted(fm.isos))
        elif r < 0.8:
            op["by"] = "id"
            op["iso_id"] = "0" * 32
        else:
            op["by"] = "object"
            op["iso"] = copy.deepcopy(rng.choice(favourites)) if favourites else _iso_spec(rng, cfg)
    elif o == "isotherms_from_db":
        crit = {}
        if rng.random() < 0.5:
            if rng.random() < 0.15:
                # the identifier column is a criterion like any other
                crit["id"] = rng.choice(sorted(fm.isos)) if fm.isos and rng.random() < 0.8 else "0" * 32
            for k in rng.sample(["material", "adsorbate", "temperature", "iso_type"], rng.randint(0 if crit else 1, 2)):
                if k == "material":
                    crit[k] = rng.choice(list(UMATS))
                elif k == "adsorbate":
                    crit[k] = rng.choice(UNIVERSE["ads"])
                elif k == "temperature":
                    crit[k] = rng.choice([77.355, 273.15, 298.15, 303.0, 0.0, 25.0, 298.1500000001, 25.000000000100044])
                else:
                    crit[k] = rng.choice(["isotherm", "pointisotherm", "modelisotherm"])
        op["criteria"] = crit
    return op


# ----------------------------------------------------------------------------- sessions

def _session_factory(dbmap):
    def factory():
        from sim.checks import storeops
        state = {}

        def handler(msg):
            if msg["cmd"] == "op":
                return storeops.exec_op(msg["op"], dbmap, state)
            raise ValueError(msg["cmd"])
        return handler
    return factory


# ----------------------------------------------------------------------------- the oracle

class Run:
    def __init__(self, ctx, cfg, rundir):
        self.ctx = ctx
        self.cfg = cfg
        self.rundir = rundir
        self.dbmap = {}
        self.models = {}
        for f, tpl in sorted(cfg["files"].items()):
            path = os.path.join(rundir, (cfg.get("fnames") or {}).get(f, f + ".db"))
            shutil.copyfile(ctx.memo["templates"][tpl], path)
            self.dbmap[f] = path
            self.models[f] = new_file_model(ctx, tpl)
        self.sessions = {}
        self.viol = None
        self.events = []
        self.counters = {}
        self.sets = {"states": set(), "triples": set()}
        self.touched = {}     # (db, key) -> set of sessions that touched it / flags
        self.restarts = {"A": 0, "B": 0}
        self.dumps = {f: dump_db(p) for f, p in self.dbmap.items()}
        for f, d in self.dumps.items():
            if not dump_clean(d):
                raise HarnessError("template not clean")

    def count(self, k, n=1):
        self.counters[k] = self.counters.get(k, 0) + n

    def session(self, name):
        s = self.sessions.get(name)
        if s is None or not s.alive:
            s = Session(_session_factory(self.dbmap), name=name)
            self.sessions[name] = s
        return s

    def close(self):
        for s in self.sessions.values():
            s.kill()

    def fail(self, kind, signature, detail):
        if self.viol is None:
            self.viol = {"kind": "C08/" + kind, "signature": "C08/" + kind + " " + signature, "detail": detail}

    # ------------------------------------------------------------------
    def step(self, op):
        if op["op"] == "restart":
            s = self.sessions.get(op["session"])
            if s is not None:
                s.kill()
            self.restarts[op["session"]] += 1
            self.count("restart")
            self.events.append(["restart", op["session"]])
            return
        if op["op"] == "file_replace":
            f = op["db"]
            tpl = self.cfg["files"][f]
            tmp = self.dbmap[f] + ".new"
            shutil.copyfile(self.ctx.memo["templates"][tpl], tmp)
            os.replace(tmp, self.dbmap[f])
            self.models[f] = new_file_model(self.ctx, tpl)
            self.dumps[f] = dump_db(self.dbmap[f])
            self.touched = {k: v for k, v in self.touched.items() if not any(t[2] == f for t in v)}
            self.count("probe:file-replaced-at-same-path")
            self.events.append(["file_replace", f])
            return
        if op["op"] == "isotherm_bulk_to_db":
            return self.step_bulk(op)
        db = op["db"]
        fm = self.models[db]
        reply = self.session(op["session"]).call({"cmd": "op", "op": op}, timeout=120)
        outcome = reply["outcome"]
        new_dumps = {f: dump_db(p) for f, p in self.dbmap.items()}
        opdesc = self.describe(op)
        self.count("ops")
        self.count("op:" + op["op"])
        # by-target delete through a retrieved object on an empty store: nothing to do
        if op["op"] == "isotherm_delete_db" and op.get("by") == "retrieved" and reply.get("retrieved_n") == 0 \
                and outcome == "ok":
            self.events.append([opdesc, "noop"])
            self._check_other_files(db, new_dumps, opdesc)
            self.dumps = new_dumps
            return
        if "uploaded" not in reply and op["op"] in ("adsorbate_to_db", "material_to_db", "isotherm_to_db"):
            # the object itself could not be built: the store was never reached
            self.events.append([opdesc, "unbuildable:" + outcome])
            self.count("unbuildable")
            if dump_sha(new_dumps[db]) != dump_sha(self.dumps[db]):
                self.fail("unbuildable-changed-file", f"op={opdesc}", {})
            self.dumps = new_dumps
            return
        cls, reason = fm.classify(op, reply)
        self.events.append([opdesc, cls, reason, outcome,
                            dg.sha([reply.get("value"), reply.get("uploaded"), reply.get("target")])[:16]])
        self.count(f"class:{cls}:{reason}")
        flag = self._touch_flag(op, reply)
        self.sets["triples"].add(f"{op['op']}|{cls}:{reason}|{outcome.split(':')[0]}|{flag}")
        changed = dump_sha(new_dumps[db]) != dump_sha(self.dumps[db])
        # integrity of every file after every operation
        for f, d in new_dumps.items():
            if not dump_clean(d):
                self.fail("integrity", f"op={opdesc} file={'target' if f == db else 'other'}",
                          {"integrity": d["integrity"][:3], "fk": d["fk"][:3]})
        self._check_other_files(db, new_dumps, opdesc)
        if outcome == "ok":
            if cls == rs.MUST_REFUSE:
                self.fail("accepted-must-refuse", f"op={opdesc} reason={reason}", {"op": op})
            else:
                fm.apply(op, reply)
                self.count("accepted")
                if op["op"].endswith("_from_db"):
                    if changed:
                        self.fail("retrieval-changed-file", f"op={opdesc}", {})
                    self.check_retrieval(op, reply, fm, opdesc, where="session")
        else:
            self.count("refused")
            self.count("refused:" + outcome)
            if changed:
                self.fail("refusal-changed-file", f"op={opdesc} class={cls}:{reason} outcome={outcome}",
                          {"diff": _dump_diff(self.dumps[db], new_dumps[db])})
            if cls == rs.MUST_ACCEPT:
                self.fail("valid-operation-refused", f"op={opdesc} reason={reason} outcome={outcome} ctx={flag}",
                          {"msg": reply.get("msg"), "op": op})
            elif cls == rs.MUST_REFUSE and outcome != "ParsingError":
                self.fail("refused-with-wrong-error", f"op={opdesc} reason={reason} outcome={outcome}",
                          {"msg": reply.get("msg")})
        self.dumps = new_dumps
        self._note_touch(op, reply)
        self.sets["states"].add(db[0] + self.cfg["files"][db][0] + fm.abstract_state(UNIVERSE))

    def step_bulk(self, op):
        db = op["db"]
        fm = self.models[db]
        reply = self.session(op["session"]).call({"cmd": "op", "op": op}, timeout=300)
        self.count("ops", op["n"])
        self.events.append(["bulk", op["n"], reply["outcome"]])
        ups = reply.get("uploaded_list", [])
        fresh = all(u["iso_id"] not in fm.isos for u in ups) and len({u["iso_id"] for u in ups}) == len(ups)
        if reply["outcome"] != "ok":
            if fresh and len(ups) and fm.classify({"op": "isotherm_to_db"}, {"uploaded": ups[-1]})[0] == rs.MUST_ACCEPT:
                self.fail("valid-operation-refused", f"op=isotherm_bulk_to_db outcome={reply['outcome']}", {"msg": reply.get("msg")})
        for u in ups:
            if u.get("done"):
                fm.apply({"op": "isotherm_to_db"}, {"uploaded": u})
        self.count("probe:bulk-uploaded", len(ups))
        self.dumps = {f: dump_db(p) for f, p in self.dbmap.items()}

    # ------------------------------------------------------------------
    def describe(self, op):
        o = op["op"]
        bits = []
        for k in ("overwrite", "autoinsert_properties", "autoinsert_material", "autoinsert_adsorbate"):
            if k in op and op[k] is not (k != "overwrite"):
                bits.append(("+" if op[k] else "-") + k)
        if o == "isotherm_to_db":
            bits.append(op["iso"]["kind"])
            bits.append("mat=" + ("dict" if isinstance(op["iso"]["material"], dict) else "name"))
        if "by" in op:
            bits.append("by=" + op["by"])
        if "table" in op:
            bits.append(op["table"])
        if o == "isotherms_from_db" and op.get("criteria"):
            bits.append("crit=" + "+".join(sorted(op["criteria"])))
        return o + ("[" + ",".join(bits) + "]" if bits else "")

    def _key_of(self, op, reply):
        o = op["op"]
        if o.startswith("adsorbate_"):
            return "ads:" + (op.get("name") or op.get("ads", {}).get("name", "?"))
        if o.startswith("material_"):
            return "mat:" + (op.get("name") or op.get("mat", {}).get("name", "?"))
        if o == "isotherm_to_db":
            u = reply.get("uploaded") or {}
            return "mat:" + str(u.get("mname"))
        return None

    def _note_touch(self, op, reply):
        k = self._key_of(op, reply)
        if k:
            self.touched.setdefault(k, set()).add((op["session"], self.restarts[op["session"]], op["db"]))

    def _touch_flag(self, op, reply):
        """Did another session / another file / a since-restarted session touch the same key earlier?"""
        k = self._key_of(op, reply)
        if not k or k not in self.touched:
            return "first"
        me = (op["session"], self.restarts[op["session"]], op["db"])
        flags = set()
        for (s, r, f) in self.touched[k]:
            if s != me[0]:
                flags.add("other-session")
            elif r != me[1]:
                flags.add("before-restart")
            if f != me[2]:
                flags.add("other-file")
            if (s, r, f) == me:
                flags.add("same")
        fl = "+".join(sorted(flags))
        if "other-session" in flags:
            self.count("probe:key-touched-by-other-session")
        if "other-file" in flags:
            self.count("probe:key-touched-in-other-file")
        if "before-restart" in flags:
            self.count("probe:key-touched-before-restart")
        return fl

    def _check_other_files(self, db, new_dumps, opdesc):
        for f in new_dumps:
            if f != db and dump_sha(new_dumps[f]) != dump_sha(self.dumps[f]):
                self.fail("other-file-changed", f"op={opdesc}", {"file": f})
        for name in sorted(os.listdir(self.rundir)):
            if not name.endswith(".db"):
                self.count("probe:stray-files-next-to-database")   # e.g. a WAL file: not a violation of the property

    # ------------------------------------------------------------------ retrieval equality
    def check_retrieval(self, op, reply, fm, opdesc, where):
        o = op["op"]
        vals = reply.get("value") or []
        if o in ("adsorbates_from_db", "materials_from_db"):
            want = fm.ads if o.startswith("ads") else fm.mats
            got = {}
            for c in vals:
                n = rs._cd(c)["name"][1]
                if n in got:
                    self.fail("retrieved-duplicate", f"op={opdesc} where={where}", {"name": n})
                    return
                got[n] = c
            self._cmp_keyed(got, want, opdesc, where, o.split("_")[0])
            if o.startswith("mat") and where != "session":
                pass
        elif o == "ptypes_from_db":
            want = fm.ptypes[op["table"]]
            got = {}
            for c in vals:
                d = rs._cd(c)
                ent = {"description": _plain(d.get("description"))}
                if op["table"] != "isotype":
                    ent["unit"] = _plain(d.get("unit"))
                got[d["type"][1]] = ent
            if sorted(got) != sorted(want):
                miss = sorted(set(want) - set(got))
                extra = sorted(set(got) - set(want))
                self.fail("retrieved-keys-differ", f"op={opdesc} where={where} table={op['table']} "
                          f"missing={len(miss) > 0} extra={len(extra) > 0}", {"missing": miss[:5], "extra": extra[:5]})
                return
            for k in want:
                if got[k] != want[k]:
                    self.fail("retrieved-differs", f"op={opdesc} where={where} table={op['table']} field=ptype",
                              {"key": k, "got": got[k], "want": want[k]})
                    return
        elif o == "isotherms_from_db":
            want = fm.expected_isotherms(op.get("criteria"))
            by_loose = {}
            for k, e in want.items():
                by_loose.setdefault(e["content"]["loose"], []).append(k)
            seen = set()
            if len(want) > 100:
                self.count("probe:more-than-100-isotherms-retrieved")
            for c in vals:
                # entries that differ only in how their uploader described the material are interchangeable
                free = [x for x in by_loose.get(c["loose"], []) if x not in seen]
                if not free:
                    rest = {x: e for x, e in want.items() if x not in seen}
                    if not rest:
                        self.fail("retrieved-keys-differ", "table=isotherms missing=False extra=True",
                                  {"op": opdesc, "where": where, "got_id": c["iso_id"]})
                    else:
                        self.fail("retrieved-differs", "table=isotherms " + self._iso_diff_sig(c, rest),
                                  {"op": opdesc, "where": where, "got_id": c["iso_id"], "want_ids": sorted(rest)[:4]})
                    return
                k = c["iso_id"] if c["iso_id"] in free else free[0]
                seen.add(k)
                e = want[k]
                # the material is a keyed item of the same file: its properties are the file's entry
                file_mat = fm.mats.get(e["mname"])
                if file_mat is not None and dg.diff(c["mat"], file_mat, rtol=0.0, loose_numbers=LOOSE) is not None:
                    self.fail("retrieved-differs", "table=isotherms field=material-properties",
                              {"op": opdesc, "where": where, "restarted": self._restarted(op), "got": c["mat"], "file": file_mat})
                    return
                if fm.consistent(k):
                    self.count("probe:id-equality-checked")
                    if c["iso_id"] != k:
                        self.fail("retrieved-differs", "table=isotherms field=iso_id",
                                  {"op": opdesc, "where": where, "got": c["iso_id"], "want": k})
                        return
            if len(seen) != len(want):
                self.fail("retrieved-keys-differ", "table=isotherms missing=True extra=False",
                          {"op": opdesc, "where": where, "missing": sorted(set(want) - seen)[:4]})

    def _restarted(self, op):
        return self.restarts.get(op.get("session"), 0) > 0

    def _iso_diff_sig(self, c, want):
        """Value-free description of how a retrieved isotherm differs from its closest model entry."""
        best = None
        for k, e in want.items():
            w = e["content"]
            if w["type"] != c["type"]:
                continue
            score = 0
            parts = []
            gd, wd = rs._cd(c["d"]), rs._cd(w["d"])
            extra = sorted(set(gd) - set(wd))
            miss = sorted(set(wd) - set(gd))
            diffv = sorted(x for x in set(gd) & set(wd) if dg.diff(gd[x], wd[x]) is not None)
            if extra:
                parts.append("extra-key:" + ",".join(extra))
            if miss:
                parts.append("missing-key:" + ",".join(miss))
            if diffv:
                parts.append("value:" + ",".join(diffv))
            if dg.diff(c["data"], w["data"]) is not None:
                parts.append("data:" + self._data_diff(c["data"], w["data"]))
            if c["mname"] != w["mname"]:
                parts.append("material-name")
            score = len(extra) + len(miss) + len(diffv) + (1 if "data" in " ".join(parts) else 0) + (c["mname"] != w["mname"])
            if best is None or score < best[0]:
                best = (score, parts)
        if best is None:
            return "field=type"
        return "field=" + ";".join(best[1])

    @staticmethod
    def _data_diff(g, w):
        if g[0] != "df" or w[0] != "df":
            return "model"
        if g[1] != w[1]:
            return "columns"
        for name, gc, wc in zip(g[1], g[3], w[3]):
            if dg.diff(gc[1], wc[1]) is not None:
                return "column-" + str(name[1])
            if gc[0] != wc[0]:
                return "dtype-" + str(name[1])
        return "index"

    def _cmp_keyed(self, got, want, opdesc, where, what):
        if sorted(got) != sorted(want):
            miss = sorted(set(want) - set(got))
            extra = sorted(set(got) - set(want))
            self.fail("retrieved-keys-differ", f"op={opdesc} where={where} table={what} missing={len(miss) > 0} "
                      f"extra={len(extra) > 0}", {"missing": miss[:5], "extra": extra[:5]})
            return
        for k in sorted(want):
            d = dg.diff(got[k], want[k], rtol=0.0, loose_numbers=LOOSE)     # a store returns exactly what it was given
            if d is not None:
                gd, wd = rs._cd(got[k]), rs._cd(want[k])
                fields = sorted(x for x in set(gd) | set(wd)
                                if x not in gd or x not in wd or dg.diff(gd[x], wd[x], rtol=0.0, loose_numbers=LOOSE) is not None)
                self.fail("retrieved-differs", f"op={opdesc} where={where} table={what} fields={','.join(fields)[:80]}",
                          {"key": k, "got": {f: gd.get(f) for f in fields[:4]}, "want": {f: wd.get(f) for f in fields[:4]}})
                return

    # ------------------------------------------------------------------ final audit from a fresh session
    def final_audit(self):
        s = Session(_session_factory(self.dbmap), name="audit")
        try:
            for f in sorted(self.dbmap):
                fm = self.models[f]
                ops = [{"op": "adsorbates_from_db", "db": f}, {"op": "materials_from_db", "db": f},
                       {"op": "isotherms_from_db", "db": f, "criteria": {}}]
                for t in ("adsorbate", "material", "isotherm", "isotype"):
                    ops.append({"op": "ptypes_from_db", "db": f, "table": t})
                for op in ops:
                    if self.viol is not None:
                        return
                    reply = s.call({"cmd": "op", "op": op}, timeout=120)
                    opdesc = self.describe(op)
                    if reply["outcome"] != "ok":
                        self.fail("valid-operation-refused", f"op={opdesc} reason=retrieve outcome={reply['outcome']} ctx=audit",
                                  {"msg": reply.get("msg")})
                        return
                    self.check_retrieval(op, reply, fm, opdesc, where="fresh-session")
                    self.count("audit-retrievals")
        finally:
            s.kill()
        aud = self.ctx.memo.get("auditor")
        if aud is not None and self.viol is None:
            for f in sorted(self.dbmap):
                fm = self.models[f]
                ops = [{"op": "adsorbates_from_db", "db": f}, {"op": "materials_from_db", "db": f},
                       {"op": "isotherms_from_db", "db": f, "criteria": {}}]
                for op, reply in zip(ops, aud.read(self.dbmap, ops)):
                    if self.viol is not None:
                        return
                    opdesc = self.describe(op)
                    if reply["outcome"] != "ok":
                        self.fail("valid-operation-refused", f"op={opdesc} reason=retrieve outcome={reply['outcome']} ctx=auditor",
                                  {"msg": reply.get("msg")})
                        return
                    self.check_retrieval(op, reply, fm, opdesc, where="auditor-other-hashseed")
                    self.count("auditor-retrievals")


def _dump_diff(a, b):
    out = {}
    for t in sorted(set(a["tables"]) | set(b["tables"])):
        ra, rb = a["tables"].get(t, []), b["tables"].get(t, [])
        if ra != rb:
            sa = {json.dumps(r) for r in ra}
            sb = {json.dumps(r) for r in rb}
            out[t] = {"removed": len(sa - sb), "added": len(sb - sa)}
    return out


# ----------------------------------------------------------------------------- run / replay

def execute(ctx, cfg, rng=None, steps=None):
    rundir = env.new_run_dir("c08")
    run = Run(ctx, cfg, rundir)
    executed = []
    favourites = []
    try:
        if steps is None:
            n = cfg["n_ops"]
            i = 0
            bulk_at = rng.randint(0, n - 1) if cfg["bulk"] else -1
            while i < n and run.viol is None:
                if i == bulk_at:
                    spec = _iso_spec(rng, dict(cfg, open_domain=False))
                    spec["kind"] = "base"
                    for k in ("pressure", "loading", "branch", "other", "model"):
                        spec.pop(k, None)
                    op = {"op": "isotherm_bulk_to_db", "db": "F1", "session": "A", "n": rng.randint(101, 125), "iso": spec}
                elif rng.random() < cfg["restart_p"]:
                    op = {"op": "restart", "session": "A" if cfg["n_sessions"] == 1 else rng.choice(["A", "B"])}
                elif cfg.get("replace_p") and rng.random() < cfg["replace_p"]:
                    # the file at this path is removed and a freshly created one takes its place (sessions stay alive)
                    op = {"op": "file_replace", "db": rng.choice(sorted(cfg["files"]))}
                else:
                    op = gen_op(rng, cfg, run.models, favourites)
                executed.append(op)
                run.step(op)
                i += 1
        else:
            for op in steps:
                executed.append(op)
                run.step(op)
                if run.viol is not None:
                    break
        if run.viol is None:
            run.final_audit()
    finally:
        run.close()
        shutil.rmtree(rundir, ignore_errors=True)
    res = {"digest": dg.sha(run.events), "counters": run.counters,
           "sets": {k: sorted(v) for k, v in run.sets.items()}, "violations": []}
    if run.viol is not None:
        v = run.viol
        v["replay"] = {"cfg": cfg, "steps": executed}
        res["violations"].append(v)
    res["events"] = run.events
    return res


def run(ctx, index):
    rng = random.Random(ctx.rs(index))
    cfg = make_cfg(rng, ctx.tier)
    res = execute(ctx, cfg, rng=rng)
    res["counters"]["files:%d" % len(cfg["files"])] = 1
    res["counters"]["sessions:%d" % cfg["n_sessions"]] = 1
    if index < 2:
        res["sample"] = {"run": index, "files": cfg["files"], "sessions": cfg["n_sessions"], "history": res["events"][:40]}
    res.pop("events", None)
    return res


def replay(ctx, rep):
    res = execute(ctx, rep["cfg"], steps=rep["steps"])
    return res["violations"][0] if res["violations"] else None


def minimise(ctx, rep):
    sig = rep["signature"]
    cfg = rep["cfg"]
    tests = [0]

    def fails(c, steps):
        tests[0] += 1
        try:
            res = execute(ctx, c, steps=steps)
        except HarnessError:
            return False
        return bool(res["violations"]) and res["violations"][0]["signature"] == sig

    steps = rep["steps"]
    n0 = len(steps)
    steps, _ = ddmin(steps, lambda c: fails(cfg, c), budget=120)
    # simplify: one session, one file
    if cfg["n_sessions"] == 2:
        c2 = dict(cfg, n_sessions=1)
        s2 = [dict(s, session="A") if "session" in s else s for s in steps]
        if fails(c2, s2):
            cfg, steps = c2, s2
    if len(cfg["files"]) == 2 and all(s.get("db", "F1") == "F1" for s in steps):
        c2 = dict(cfg, files={"F1": cfg["files"]["F1"]})
        if fails(c2, steps):
            cfg = c2
    if cfg["files"].get("F1") == "full":
        c2 = dict(cfg, files=dict(cfg["files"], F1="bare"))
        if fails(c2, steps):
            cfg = c2
    rep = dict(rep)
    rep["cfg"] = cfg
    rep["steps"] = steps
    return rep, {"steps_before": n0, "steps_after": len(steps), "tests": tests[0]}


def coverage(total):
    c = total["counters"]
    states = total["sets"].get("states", set())
    triples = total["sets"].get("triples", set())
    return {
        "evaluations": total["runs"],
        "distinct_nontrivial": len(states) + len(triples),
        "rule": ("one evaluation = one multi-session history (8-40 store operations, 0-4 restarts, 1-2 files, 1-2 sessions) "
                 "followed by a full retrieval audit from a fresh session; distinct_nontrivial = distinct abstract file states "
                 "(which universe keys are present per table, per file/template) + distinct (operation, expected class, "
                 "outcome, cross-session/file/restart context) tuples, both counted by the run"),
        "distinct_abstract_states": len(states),
        "distinct_op_class_context_tuples": len(triples),
        "operations": c.get("ops", 0),
        "faults_fired": {"session_restart(SIGKILL)": c.get("restart", 0),
                         **{k: v for k, v in c.items() if k.startswith("refused")}},
        "fault_kinds": "session crash+restart (volatile registries and caches lost, files survive); in-band refusals by "
                       "UNIQUE / FOREIGN KEY / NOT NULL / existence checks",
        "probes": {k[6:]: v for k, v in c.items() if k.startswith("probe:")},
        "classes": {k[6:]: v for k, v in c.items() if k.startswith("class:")},
        "components": {"real": ["pygaps (working tree)", "sqlite3 / libsqlite3", "files on tmpfs", "pandas", "numpy"],
                       "stubs": [], "wrappers": ["sqlite3.connect seam (pass-through, counts statements)"]},
    }


def reach_failures(total, tier):
    c = total["counters"]
    if total["runs"] < 300:
        return []
    need = ["restart", "probe:key-touched-by-other-session", "probe:key-touched-in-other-file",
            "probe:key-touched-before-restart", "class:must_refuse:duplicate", "class:must_refuse:unknown-reference",
            "class:must_refuse:absent", "audit-retrievals"]
    return [k for k in need if c.get(k, 0) == 0]
