"""Process primitives of the simulator: forked one-shot calls and forked sessions.

A *session* is `os.fork()` of the pristine worker (DESIGN 2.1): it inherits the
imported pyGAPS with registries exactly as `default.db` filled them and every
cache empty.  Commands and replies are JSON lines over pipes.  A session can be
killed at any moment (SIGKILL) - only files survive.
"""
import json
import os
import select
import signal
import sys
import time
import traceback


class HarnessError(Exception):
    """Trouble in the machinery itself (never a property violation)."""


def _write_all(fd, data):
    view = memoryview(data)
    while view:
        n = os.write(fd, view)
        view = view[n:]


def _read_all(fd, timeout):
    """Read until EOF or timeout; returns (bytes, timed_out)."""
    chunks = []
    deadline = time.monotonic() + timeout
    while True:
        left = deadline - time.monotonic()
        if left <= 0:
            return b"".join(chunks), True
        r, _, _ = select.select([fd], [], [], left)
        if not r:
            return b"".join(chunks), True
        buf = os.read(fd, 1 << 16)
        if not buf:
            return b"".join(chunks), False
        chunks.append(buf)


def _reap(pid, timeout=5.0):
    deadline = time.monotonic() + timeout
    while True:
        try:
            wpid, status = os.waitpid(pid, os.WNOHANG)
        except ChildProcessError:
            return None
        if wpid:
            return status
        if time.monotonic() > deadline:
            try:
                os.kill(pid, signal.SIGKILL)
            except ProcessLookupError:
                pass
            _, status = os.waitpid(pid, 0)
            return status
        time.sleep(0.0005)


def decode_status(status):
    if status is None:
        return {"exit": None, "signal": None}
    if os.WIFEXITED(status):
        return {"exit": os.WEXITSTATUS(status), "signal": None}
    if os.WIFSIGNALED(status):
        return {"exit": None, "signal": os.WTERMSIG(status)}
    return {"exit": None, "signal": None}


def fork_call(fn, args=(), timeout=120.0, after_fork=None, before_reap=None):
    """Run fn(*args) in a forked child; return dict(result=..., exit=..., signal=..., timeout=bool).

    The child writes json.dumps(result) to a pipe and _exit(0)s.  If the child
    dies before writing (e.g. a planned crash), result is None.
    """
    sys.stdout.flush()
    sys.stderr.flush()
    r, w = os.pipe()
    pid = os.fork()
    if pid == 0:
        code = 0
        try:
            os.close(r)
            if after_fork is not None:
                after_fork()
            res = fn(*args)
            _write_all(w, json.dumps(res).encode())
        except BaseException:
            code = 70
            try:
                _write_all(w, json.dumps({"__harness_error__": traceback.format_exc()}).encode())
            except BaseException:
                pass
        finally:
            os._exit(code)
    os.close(w)
    data, timed_out = _read_all(r, timeout)
    os.close(r)
    if timed_out:
        try:
            os.kill(pid, signal.SIGKILL)
        except ProcessLookupError:
            pass
    extra = None
    if before_reap is not None and not timed_out:
        # the child has exited (its end of the pipe is closed) but has not been waited for: it is a zombie and its pid
        # still exists - the moment at which another process may already try again
        extra = before_reap(pid, bool(data))
    status = _reap(pid)
    out = decode_status(status)
    if extra is not None:
        out["before_reap"] = extra
    out["timeout"] = timed_out
    out["result"] = None
    if data:
        try:
            out["result"] = json.loads(data.decode())
        except ValueError:
            out["result"] = None
            out["garbled"] = True
    if isinstance(out["result"], dict) and "__harness_error__" in out["result"]:
        raise HarnessError("child failed:\n" + out["result"]["__harness_error__"])
    return out


class Session:
    """A forked, long-lived client process executing JSON commands.

    handler_factory() is called in the child after fork and must return a
    function handler(msg) -> reply (JSON-able).
    """

    def __init__(self, handler_factory, name="S", after_fork=None):
        sys.stdout.flush()
        sys.stderr.flush()
        c_r, c_w = os.pipe()   # commands parent -> child
        r_r, r_w = os.pipe()   # replies  child -> parent
        pid = os.fork()
        if pid == 0:
            code = 0
            try:
                os.close(c_w)
                os.close(r_r)
                if after_fork is not None:
                    after_fork()
                handler = handler_factory()
                fin = os.fdopen(c_r, "rb", buffering=0)
                buf = b""
                while True:
                    while b"\n" not in buf:
                        chunk = fin.read(1 << 16)
                        if not chunk:
                            os._exit(0)
                        buf += chunk
                    line, buf = buf.split(b"\n", 1)
                    msg = json.loads(line.decode())
                    if msg.get("cmd") == "exit":
                        os._exit(0)
                    try:
                        reply = handler(msg)
                    except BaseException:
                        reply = {"__harness_error__": traceback.format_exc()}
                    _write_all(r_w, json.dumps(reply).encode() + b"\n")
            except BaseException:
                code = 70
                try:
                    _write_all(r_w, json.dumps({"__harness_error__": traceback.format_exc()}).encode() + b"\n")
                except BaseException:
                    pass
            finally:
                os._exit(code)
        os.close(c_r)
        os.close(r_w)
        self.pid = pid
        self.name = name
        self._c_w = c_w
        self._r_r = r_r
        self._buf = b""
        self.alive = True

    def call(self, msg, timeout=120.0):
        if not self.alive:
            raise HarnessError(f"session {self.name} is not alive")
        _write_all(self._c_w, json.dumps(msg).encode() + b"\n")
        deadline = time.monotonic() + timeout
        while b"\n" not in self._buf:
            left = deadline - time.monotonic()
            if left <= 0:
                self.kill()
                raise HarnessError(f"session {self.name} timed out on {msg.get('cmd')}")
            r, _, _ = select.select([self._r_r], [], [], left)
            if not r:
                continue
            chunk = os.read(self._r_r, 1 << 16)
            if not chunk:
                status = _reap(self.pid)
                self.alive = False
                self._close_fds()
                raise HarnessError(f"session {self.name} died: {decode_status(status)} on {json.dumps(msg)[:300]}")
            self._buf += chunk
        line, self._buf = self._buf.split(b"\n", 1)
        reply = json.loads(line.decode())
        if isinstance(reply, dict) and "__harness_error__" in reply:
            raise HarnessError(f"session {self.name} handler failed:\n" + reply["__harness_error__"])
        return reply

    def _close_fds(self):
        for fd in (self._c_w, self._r_r):
            try:
                os.close(fd)
            except OSError:
                pass

    def kill(self):
        """Abrupt death: SIGKILL, nothing volatile survives."""
        if not self.alive:
            return
        try:
            os.kill(self.pid, signal.SIGKILL)
        except ProcessLookupError:
            pass
        _reap(self.pid)
        self.alive = False
        self._close_fds()

    def close(self):
        if not self.alive:
            return
        try:
            _write_all(self._c_w, b'{"cmd":"exit"}\n')
        except OSError:
            pass
        _reap(self.pid, timeout=2.0)
        self.alive = False
        self._close_fds()
