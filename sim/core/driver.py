"""Driver: starts workers, hands out run indices, merges results, known findings,
replay, evidence, exit codes (DESIGN 2.1, 2.5, 2.6, 2.8).

Exit codes: 0 property held on everything explored (known findings are printed);
1 VIOLATION (unknown signature); 2 HARNESS-ERROR; 3 replay did not reproduce.
"""
import argparse
import importlib
import json
import os
import queue
import subprocess
import sys
import threading
import time

from sim.core import env

WORKER_MAIN = os.path.join(env.VERIF_ROOT, "sim", "worker_main.py")
PYTHON = os.environ.get("VERIF_PYTHON", "/venv/bin/python")


def _worker_env(prop, hashseed="0", preload=False):
    e = dict(os.environ)
    e["PYTHONHASHSEED"] = str(hashseed)
    for k in ("OMP_NUM_THREADS", "OPENBLAS_NUM_THREADS", "MKL_NUM_THREADS", "NUMEXPR_NUM_THREADS"):
        e[k] = "1"
    e["MPLBACKEND"] = "Agg"
    e["PYTHONDONTWRITEBYTECODE"] = "1"
    e["PYTHONPATH"] = env.VERIF_ROOT
    e.pop("LD_PRELOAD", None)
    if preload and os.path.exists(env.SHIM_PATH):
        e["LD_PRELOAD"] = env.SHIM_PATH
        e["VERIF_SHIM"] = env.SHIM_PATH
    return e


class Worker:
    def __init__(self, prop, seed, tier, known, options, hashseed="0", preload=False):
        self.p = subprocess.Popen(
            [PYTHON, "-u", WORKER_MAIN], stdin=subprocess.PIPE, stdout=subprocess.PIPE,
            env=_worker_env(prop, hashseed, preload), cwd=env.VERIF_ROOT, text=True, bufsize=1)
        self.info = self.call({"task": "init", "prop": prop, "seed": seed, "tier": tier,
                               "known": known, "options": options})
        if not self.info.get("ok"):
            raise RuntimeError("worker init failed: " + json.dumps(self.info)[:2000])

    def call(self, msg):
        self.p.stdin.write(json.dumps(msg) + "\n")
        self.p.stdin.flush()
        line = self.p.stdout.readline()
        if not line:
            rc = self.p.poll()
            return {"harness_error": f"worker died (rc={rc}) during {msg.get('task')} {str(msg)[:200]}"}
        return json.loads(line)

    def close(self):
        try:
            self.p.stdin.write('{"task":"exit"}\n')
            self.p.stdin.flush()
        except Exception:
            pass
        try:
            self.p.wait(timeout=5)
        except Exception:
            self.p.kill()


def load_known(prop):
    if not os.path.exists(env.KNOWN_FILE):
        return []
    with open(env.KNOWN_FILE) as fh:
        data = json.load(fh)
    return [e for e in data.get("findings", []) if e.get("property") == prop]


def ensure_shim():
    if os.path.exists(env.SHIM_PATH):
        src = os.path.join(env.VERIF_ROOT, "sim", "seams", "native", "crashshim.c")
        if os.path.getmtime(env.SHIM_PATH) >= os.path.getmtime(src):
            return True
    os.makedirs(env.BUILD_DIR, exist_ok=True)
    src = os.path.join(env.VERIF_ROOT, "sim", "seams", "native", "crashshim.c")
    try:
        subprocess.run(["gcc", "-O2", "-shared", "-fPIC", "-o", env.SHIM_PATH, src, "-ldl"], check=True,
                       capture_output=True)
        return True
    except Exception as e:  # no compiler: L3 switched off, evidence says so
        sys.stderr.write(f"shim build failed: {e}\n")
        return False


def merge(total, agg):
    total["runs"] += agg.get("runs", 0)
    for k, v in agg.get("counters", {}).items():
        total["counters"][k] = total["counters"].get(k, 0) + v
    for k, vs in agg.get("sets", {}).items():
        total["sets"].setdefault(k, set()).update(vs)
    total["digests"].extend(agg.get("digests", []))
    total["violations"].extend(agg.get("violations", []))
    for k, v in agg.get("known_hits", {}).items():
        total["known_hits"][k] = total["known_hits"].get(k, 0) + v
    if len(total["samples"]) < 6:
        total["samples"].extend(agg.get("samples", [])[: 6 - len(total["samples"])])
    total["harness_errors"].extend(agg.get("harness_errors", []))


def explore(prop, seed, tier, n_runs, n_workers, known_sigs, options, budget_s, want_digests=False,
            hashseed="0", start_index=0, quiet=False):
    mod = importlib.import_module("sim.checks." + prop.lower())
    preload = bool(getattr(mod, "NEEDS_SHIM", False)) and ensure_shim()
    options = dict(options or {})
    options["shim"] = preload
    batch = int(getattr(mod, "BATCH", 20))
    total = {"runs": 0, "counters": {}, "sets": {}, "digests": [], "violations": [], "known_hits": {},
             "samples": [], "harness_errors": []}
    t0 = time.time()
    q = queue.Queue()
    idx = list(range(start_index, start_index + n_runs))
    for i in range(0, len(idx), batch):
        q.put(idx[i:i + batch])
    lock = threading.Lock()
    info = {}
    stop = threading.Event()

    def loop(wi):
        try:
            w = Worker(prop, seed, tier, known_sigs, options, hashseed=hashseed, preload=preload)
        except Exception as e:
            with lock:
                total["harness_errors"].append({"worker": wi, "error": str(e)[-1500:]})
            return
        with lock:
            info.setdefault("tree", w.info.get("tree"))
            info.setdefault("boot_s", w.info.get("boot_s"))
        try:
            while not stop.is_set():
                if budget_s and time.time() - t0 > budget_s:
                    with lock:
                        info["truncated"] = True
                    break
                try:
                    b = q.get_nowait()
                except queue.Empty:
                    break
                agg = w.call({"task": "runs", "indices": b, "digests": want_digests})
                with lock:
                    if "harness_error" in agg:
                        total["harness_errors"].append({"batch": b[:3], "error": agg["harness_error"]})
                        stop.set()
                        break
                    merge(total, agg)
                    if len(total["violations"]) >= int(options.get("max_violations", 3)):
                        stop.set()
        finally:
            w.close()

    threads = [threading.Thread(target=loop, args=(i,), daemon=True) for i in range(n_workers)]
    for t in threads:
        t.start()
    for t in threads:
        t.join()
    total["wall_s"] = time.time() - t0
    total["info"] = info
    total["planned_runs"] = n_runs
    return mod, total


def run_known_replays(prop, seed, tier, known, preload):
    """Re-execute every listed finding: KNOWN-FINDING line if it still fails with its signature."""
    lines = []
    if not known:
        return lines
    w = Worker(prop, seed, tier, [], {"no_minimise": True, "shim": preload}, preload=preload)
    try:
        for e in known:
            if e.get("status") != "known":
                continue
            rp = os.path.join(env.VERIF_ROOT, e["replay"])
            with open(rp) as fh:
                rep = json.load(fh)
            r = w.call({"task": "replay", "replay": rep})
            if "harness_error" in r:
                raise RuntimeError("known-finding replay failed: " + r["harness_error"])
            v = r.get("violation")
            if v and v.get("signature") == e["signature"]:
                lines.append(f"KNOWN-FINDING: property={prop} {e['what']} [signature={e['signature']}]")
            else:
                sys.stderr.write(f"note: listed finding no longer reproduces: {e['signature']} "
                                 f"(now: {v.get('signature') if v else 'no violation'})\n")
    finally:
        w.close()
    return lines


def write_evidence(prop, mod, total, seed, tier, n_violations, extra_assumptions=()):
    os.makedirs(env.EVIDENCE_DIR, exist_ok=True)
    cov = mod.coverage(total)
    wall = total["wall_s"]
    runs = total["runs"]
    cov.setdefault("evaluations", runs)
    cov["runs"] = runs
    cov["planned_runs"] = total.get("planned_runs")
    cov["truncated_by_wall_cap"] = bool(total["info"].get("truncated"))
    cov["runs_per_hour"] = int(runs / wall * 3600) if wall > 0 else 0
    cov["seeds"] = f"run i uses sha256('{prop}:{seed}:i'), i in [0,{total.get('planned_runs')})"
    cov["simulated_time"] = ("not a dimension of this system: pyGAPS has no clock, timer or timeout; "
                             "progress is measured in logical steps (operations / SQL statements / syscalls)")
    cov["tree_fingerprint"] = total["info"].get("tree")
    cov["known_finding_hits"] = total.get("known_hits", {})
    cov["counters"] = dict(sorted(total["counters"].items()))
    if not cov.get("samples"):
        cov["samples"] = total["samples"][:4] or ["(no sample recorded)"]
    ev = {
        "property_id": prop,
        "tier": tier,
        "seed": seed,
        "level": mod.LEVEL,
        "coverage": cov,
        "assumptions": list(getattr(mod, "ASSUMPTIONS", [])) + list(extra_assumptions),
        "wall_s": round(wall, 3),
        "violations": n_violations,
    }
    path = os.path.join(env.EVIDENCE_DIR, f"{prop}.json")
    tmp = path + ".tmp"
    with open(tmp, "w") as fh:
        json.dump(ev, fh, indent=1, sort_keys=True)
    os.replace(tmp, path)
    return path


def main(argv=None):
    ap = argparse.ArgumentParser(prog="check")
    ap.add_argument("prop")
    ap.add_argument("--tier", default=os.environ.get("VERIF_TIER", "quick"))
    ap.add_argument("--replay")
    ap.add_argument("--runs", type=int)
    ap.add_argument("--workers", type=int, default=int(os.environ.get("VERIF_WORKERS", "0")) or (os.cpu_count() or 4))
    ap.add_argument("--start", type=int, default=0)
    ap.add_argument("--no-known", action="store_true", help="ignore known_findings.json (self-tests)")
    ap.add_argument("--no-minimise", action="store_true")
    ap.add_argument("--no-evidence", action="store_true")
    args = ap.parse_args(argv)
    prop = args.prop.upper()
    tier = args.tier if args.tier in ("quick", "thorough") else "quick"
    seed = int(os.environ.get("VERIF_SEED", "1"))
    mod = importlib.import_module("sim.checks." + prop.lower())
    preload = bool(getattr(mod, "NEEDS_SHIM", False)) and ensure_shim()

    if args.replay:
        with open(args.replay) as fh:
            rep = json.load(fh)
        w = Worker(prop, rep.get("seed", seed), tier, [], {"no_minimise": True, "shim": preload}, preload=preload)
        try:
            r = w.call({"task": "replay", "replay": rep})
        finally:
            w.close()
        if "harness_error" in r:
            print("HARNESS-ERROR: " + r["harness_error"])
            return 2
        v = r.get("violation")
        if v and v.get("signature") == rep.get("signature"):
            print(f"reproduced: {v['kind']} signature={v['signature']}")
            print(f"detail: {json.dumps(v.get('detail'))[:1500]}")
            print(f"VIOLATION property={prop} replay={args.replay}")
            return 1
        if v:
            print(f"different violation: {v['kind']} signature={v['signature']} (expected {rep.get('signature')})")
            print(f"VIOLATION property={prop} replay={args.replay}")
            return 1
        print("did not reproduce")
        return 3

    known = [] if args.no_known else load_known(prop)
    known_sigs = [e["signature"] for e in known if e.get("status") == "known"]
    try:
        known_lines = run_known_replays(prop, seed, tier, known, preload)
    except Exception as e:
        print(f"HARNESS-ERROR: {e}")
        return 2
    for ln in known_lines:
        print(ln)

    n_runs = args.runs or mod.tier_runs(tier)
    default_budget = mod.tier_budget_s(tier)
    budget_s = float(os.environ.get("VERIF_BUDGET_S", default_budget))
    options = {"no_minimise": args.no_minimise}
    mod, total = explore(prop, seed, tier, n_runs, args.workers, known_sigs, options, budget_s,
                         start_index=args.start)
    viols = total["violations"]
    herr = total["harness_errors"]
    if not args.no_evidence and total["runs"] > 0:
        write_evidence(prop, mod, total, seed, tier, len(viols))
    print(f"{prop} tier={tier} seed={seed} runs={total['runs']}/{n_runs} wall={total['wall_s']:.1f}s "
          f"tree={total['info'].get('tree')} known_hits={sum(total['known_hits'].values())} "
          f"violations={len(viols)} harness_errors={len(herr)}")
    if herr:
        for h in herr[:3]:
            print("HARNESS-ERROR: " + json.dumps(h)[:3000])
        if not viols:
            return 2
        # trouble in some runs does not undo a violation found, minimised and replayed in others: report it
    if total["runs"] == 0:
        print("HARNESS-ERROR: no run completed")
        return 2
    if not viols and hasattr(mod, "reach_failures"):
        # a silent run that never reached the situations the check is about is not a pass
        rf = mod.reach_failures(total, tier)
        if rf:
            print("HARNESS-ERROR: reach probes stuck at zero: " + ", ".join(rf))
            return 2
    if viols:
        seen = set()
        for v in viols:
            if v["signature"] in seen:
                continue
            seen.add(v["signature"])
            print(f"violation: {v['kind']} signature={v['signature']} run={v['index']} "
                  f"reproduced={v['reproduced']} min={json.dumps(v.get('min'))[:300]}")
            print(f"detail: {json.dumps(v.get('detail'))[:1200]}")
            print(f"VIOLATION property={prop} replay={v['replay']}")
        return 1
    return 0


if __name__ == "__main__":
    sys.exit(main())
