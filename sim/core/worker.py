"""Worker process: pristine interpreter that imports pyGAPS once and from then on runs
only harness code; every pyGAPS operation happens in a fork of it (DESIGN 2.1).

Protocol (JSON lines on stdin/stdout):
  {"task":"init","prop":..,"seed":..,"tier":..,"known":[...]}            -> {"ok":true,...}
  {"task":"runs","indices":[...]}                                       -> {"results":[...]}  (aggregated)
  {"task":"replay","replay":{...}}                                      -> {"violation":...}
  {"task":"exit"}
"""
import faulthandler
import hashlib
import importlib
import json
import os
import sys
import time
import traceback


def run_seed(prop, seed, index):
    h = hashlib.sha256(f"{prop}:{seed}:{index}".encode()).digest()
    return int.from_bytes(h[:8], "big")


class Ctx:
    def __init__(self, prop, seed, tier, known, options):
        self.prop = prop
        self.seed = seed
        self.tier = tier
        self.known = known            # list of known-finding signatures (status == known)
        self.options = options or {}
        self.memo = {}

    def rs(self, index):
        return run_seed(self.prop, self.seed, index)


def _load(prop):
    return importlib.import_module("sim.checks." + prop.lower())


def _agg_new():
    return {"runs": 0, "counters": {}, "sets": {}, "digests": [], "violations": [], "known_hits": {},
            "samples": [], "harness_errors": []}


def _agg_add(agg, index, res, want_digests):
    agg["runs"] += 1
    for k, v in (res.get("counters") or {}).items():
        agg["counters"][k] = agg["counters"].get(k, 0) + v
    for k, vs in (res.get("sets") or {}).items():
        s = agg["sets"].setdefault(k, set())
        s.update(vs)
    if want_digests:
        agg["digests"].append([index, res.get("digest")])
    if res.get("sample") is not None:
        agg["samples"].append(res["sample"])


def main():
    faulthandler.enable()
    sys.path.insert(0, os.path.dirname(os.path.dirname(os.path.dirname(os.path.abspath(__file__)))))
    from sim.core import env
    from sim.core.proc import HarnessError
    out = sys.stdout
    # anything pyGAPS or a dependency prints must not corrupt the protocol
    proto = os.fdopen(os.dup(1), "w", buffering=1)
    os.dup2(2, 1)
    sys.stdout = sys.stderr
    ctx = None
    mod = None

    def reply(obj):
        proto.write(json.dumps(obj) + "\n")
        proto.flush()

    for line in sys.stdin:
        line = line.strip()
        if not line:
            continue
        msg = json.loads(line)
        task = msg.get("task")
        try:
            if task == "init":
                t0 = time.time()
                env.boot_pygaps()
                mod = _load(msg["prop"])
                ctx = Ctx(msg["prop"], msg["seed"], msg["tier"], msg.get("known", []), msg.get("options"))
                if hasattr(mod, "worker_init"):
                    mod.worker_init(ctx)
                reply({"ok": True, "boot_s": time.time() - t0, "tree": env.tree_fingerprint(),
                       "pid": os.getpid(), "hashseed": os.environ.get("PYTHONHASHSEED")})
            elif task == "runs":
                agg = _agg_new()
                want_digests = bool(msg.get("digests"))
                for index in msg["indices"]:
                    faulthandler.dump_traceback_later(msg.get("run_cap_s", 1800), exit=True)
                    try:
                        res = mod.run(ctx, index)
                    except HarnessError as e:
                        agg["harness_errors"].append({"index": index, "error": str(e)[-2000:]})
                        faulthandler.cancel_dump_traceback_later()
                        continue
                    faulthandler.cancel_dump_traceback_later()
                    _agg_add(agg, index, res, want_digests)
                    for v in res.get("violations") or []:
                        sig = v["signature"]
                        if sig in ctx.known:
                            agg["known_hits"][sig] = agg["known_hits"].get(sig, 0) + 1
                            continue
                        # unknown violation: minimise, write replay, verify replay
                        faulthandler.dump_traceback_later(msg.get("min_cap_s", 2400), exit=True)
                        try:
                            rec = finalize_violation(mod, ctx, index, v)
                        finally:
                            faulthandler.cancel_dump_traceback_later()
                        agg["violations"].append(rec)
                agg["sets"] = {k: sorted(v) for k, v in agg["sets"].items()}
                reply(agg)
            elif task == "replay":
                v = mod.replay(ctx, msg["replay"])
                reply({"violation": v})
            elif task == "call":
                fn = getattr(mod, msg["fn"])
                reply({"result": fn(ctx, *msg.get("args", []))})
            elif task == "exit":
                break
            else:
                reply({"error": "unknown task"})
        except HarnessError as e:
            reply({"harness_error": str(e)[-4000:]})
        except Exception:
            reply({"harness_error": traceback.format_exc()[-4000:]})
    os._exit(0)


def finalize_violation(mod, ctx, index, v):
    """Minimise, write the replay file, re-execute it; returns the record for the driver."""
    from sim.core import env
    os.makedirs(env.REPLAY_DIR, exist_ok=True)
    rep = v["replay"]
    rep.setdefault("property", ctx.prop)
    rep["seed"] = ctx.seed
    rep["run"] = index
    rep["tree"] = env.tree_fingerprint()
    rep["signature"] = v["signature"]
    rep["kind"] = v["kind"]
    rep["detail"] = v.get("detail")
    min_info = {}
    if hasattr(mod, "minimise") and not ctx.options.get("no_minimise"):
        try:
            rep, min_info = mod.minimise(ctx, rep)
        except Exception:
            min_info = {"minimise_error": traceback.format_exc()[-1500:]}
    rep["minimised"] = min_info
    path = os.path.join(env.REPLAY_DIR, f"{ctx.prop}-s{ctx.seed}-r{index}.json")
    with open(path, "w") as fh:
        json.dump(rep, fh, indent=1, sort_keys=True)
    # re-execute the minimised file in fresh processes (replay forks from the pristine worker)
    again = mod.replay(ctx, rep)
    reproduced = bool(again) and again.get("signature") == rep["signature"]
    return {"index": index, "signature": rep["signature"], "kind": rep["kind"], "detail": rep.get("detail"),
            "replay": path, "reproduced": reproduced, "min": min_info}


if __name__ == "__main__":
    main()
