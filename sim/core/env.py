"""Environment of a worker process: paths, scratch space, pyGAPS bootstrap."""
import atexit
import hashlib
import os
import shutil
import sys
import tempfile

VERIF_ROOT = os.path.dirname(os.path.dirname(os.path.dirname(os.path.abspath(__file__))))
REPO_SRC = os.environ.get("VERIF_REPO_SRC", "/repo/src")
BUILD_DIR = os.path.join(VERIF_ROOT, "build")
SHIM_PATH = os.path.join(BUILD_DIR, "crashshim.so")
OUT_DIR = os.path.join(VERIF_ROOT, "out")
REPLAY_DIR = os.path.join(OUT_DIR, "replays")
EVIDENCE_DIR = os.path.join(VERIF_ROOT, "evidence")
KNOWN_FILE = os.path.join(VERIF_ROOT, "known_findings.json")

_scratch_root = None
_owner_pid = None


def scratch_base():
    for cand in ("/dev/shm", os.environ.get("TMPDIR"), tempfile.gettempdir()):
        if cand and os.path.isdir(cand) and os.access(cand, os.W_OK):
            return cand
    raise RuntimeError("no writable scratch base")


def scratch_root():
    """Per-process scratch directory, removed at exit (only by the process that made it)."""
    global _scratch_root, _owner_pid
    if _scratch_root is None or _owner_pid != os.getpid():
        if _scratch_root is not None and _owner_pid != os.getpid():
            # a forked child asking for its own root: nest inside the parent's
            d = tempfile.mkdtemp(prefix="c-", dir=_scratch_root)
            return d
        _scratch_root = tempfile.mkdtemp(prefix="pgverif-", dir=scratch_base())
        _owner_pid = os.getpid()
        atexit.register(_cleanup, _scratch_root, _owner_pid)
    return _scratch_root


def _cleanup(path, pid):
    if os.getpid() == pid:
        shutil.rmtree(path, ignore_errors=True)


def new_run_dir(tag):
    d = tempfile.mkdtemp(prefix=tag + "-", dir=scratch_root())
    return d


def tree_fingerprint(src=None):
    """sha256 over the pyGAPS sources the checks execute."""
    src = src or REPO_SRC
    h = hashlib.sha256()
    base = os.path.join(src, "pygaps")
    for root, dirs, files in os.walk(base):
        dirs[:] = sorted(d for d in dirs if d != "__pycache__")
        for f in sorted(files):
            if f.endswith((".pyc", ".pyo", "-wal", "-shm", "-journal")):
                continue
            p = os.path.join(root, f)
            try:
                with open(p, "rb") as fh:
                    data = fh.read()
            except OSError:
                continue
            h.update(os.path.relpath(p, base).encode())
            h.update(hashlib.sha256(data).digest())
    return h.hexdigest()[:16]


_booted = False


def boot_pygaps():
    """Install seams, import pyGAPS from the tree under test, silence it, fence the default db."""
    global _booted
    if _booted:
        return sys.modules["pygaps"]
    os.environ.setdefault("MPLBACKEND", "Agg")
    if REPO_SRC not in sys.path[:1]:
        sys.path.insert(0, REPO_SRC)
    from sim.seams import sqlseam
    sqlseam.install()
    # first fence: the packaged default.db is never opened, not even by the import-time load_data(); the seam
    # redirects that one path to a scratch copy (a tree that e.g. switches on WAL would otherwise rewrite the file)
    packaged = os.path.join(REPO_SRC, "pygaps", "data", "default.db")
    fence0 = os.path.join(scratch_root(), "fence-import-default.db")
    shutil.copyfile(packaged, fence0)
    sqlseam.REDIRECT[os.path.realpath(packaged)] = fence0
    import logging
    import warnings
    warnings.filterwarnings("ignore")
    import matplotlib
    matplotlib.use("Agg")
    import pygaps
    here = os.path.realpath(os.path.dirname(pygaps.__file__))
    want = os.path.realpath(os.path.join(REPO_SRC, "pygaps"))
    if here != want:
        raise RuntimeError(f"pygaps imported from {here}, expected {want}")
    pygaps.logger.setLevel(logging.CRITICAL + 10)
    for h in list(pygaps.logger.handlers):
        pygaps.logger.removeHandler(h)
    pygaps.logger.addHandler(logging.NullHandler())
    pygaps.logger.propagate = False
    # second fence: no run may ever write into the packaged default.db
    import pygaps.data
    import pygaps.parsing.sqlite as pgsql
    fence = os.path.join(scratch_root(), "fence-default.db")
    shutil.copyfile(str(pygaps.data.DATABASE), fence)
    pygaps.data.DATABASE = fence
    pgsql.DATABASE = fence
    pygaps.DATABASE = fence
    # import (not execute) every pyGAPS sub-package now, so that sessions forked from this process do not pay
    # for - or differ by - lazy imports; importing creates the module-level caches empty
    import importlib
    for modname in ("pygaps.characterisation", "pygaps.iast", "pygaps.modelling", "pygaps.parsing",
                    "pygaps.parsing.json", "pygaps.parsing.csv", "pygaps.parsing.aif", "pygaps.parsing.excel",
                    "pygaps.graphing", "pygaps.utilities.sqlite_db_creator", "scipy.optimize", "scipy.interpolate",
                    "scipy.stats", "openpyxl", "xlrd", "xlwt", "gemmi"):
        try:
            importlib.import_module(modname)
        except Exception:
            pass
    import numpy
    numpy.seterr(all="ignore")
    sqlseam.reset()
    # everything alive now is permanent (modules, registries): keep it out of later garbage collections, so that the
    # deterministic gc.collect() sessions perform after a failed operation costs microseconds, not tens of milliseconds
    import gc
    gc.collect()
    gc.freeze()
    _booted = True
    return pygaps
