"""Self-tests that gate everything else (DESIGN 2.7): determinism and sensitivity.

  python -m sim.core.selftest determinism [C02 C04 ...] [--runs N]
  python -m sim.core.selftest mutants [ids or property ids ...] [--runs N]
  python -m sim.core.selftest seeded [ids ...]              (the sub-agent changes under /verif/seeded)
"""
import argparse
import importlib
import json
import os
import shutil
import subprocess
import sys
import tempfile
import time

from sim.core import driver, env

PROPS = ["C02", "C04", "C08", "C09"]
DET_RUNS = {"C02": 240, "C04": 200, "C08": 200, "C09": 12}
MUT_RUNS = {"C02": 3000, "C04": 2400, "C08": 1600, "C09": 80}


def determinism(props, runs=None):
    ok = True
    for prop in props:
        n = runs or DET_RUNS[prop]
        t0 = time.time()
        configs = [("w16,hs0", 16, "0"), ("w3,hs0", 3, "0"), ("w7,hs12345", 7, "12345")]
        results = []
        for name, nw, hs in configs:
            _, total = driver.explore(prop, 1, "quick", n, nw, [], {"no_minimise": True, "max_violations": 10 ** 9},
                                      budget_s=0, want_digests=True, hashseed=hs)
            if total["harness_errors"]:
                print(f"DETERMINISM {prop} {name}: HARNESS-ERROR {total['harness_errors'][:1]}")
                ok = False
            results.append(dict(total["digests"]))
        base = results[0]
        bad = []
        for (name, _, _), r in zip(configs[1:], results[1:]):
            for i in sorted(base):
                if r.get(i) != base[i]:
                    bad.append((name, i))
        print(f"DETERMINISM {prop}: runs={len(base)} x {len(configs)} configurations "
              f"(worker counts 16/3/7, PYTHONHASHSEED 0/0/12345) mismatches={len(bad)} wall={time.time() - t0:.0f}s")
        if bad:
            ok = False
            print("  first mismatches:", bad[:10])
    return ok


def _scratch_src():
    base = tempfile.mkdtemp(prefix="pgverif-mut-", dir=env.scratch_base())
    dst = os.path.join(base, "src")
    shutil.copytree(os.path.join("/repo", "src"), dst, ignore=shutil.ignore_patterns("__pycache__", "*.pyc"))
    return base, dst


def run_check_on(src, prop, runs, timeout=3000):
    e = dict(os.environ)
    e["VERIF_REPO_SRC"] = src
    e["PYTHONPATH"] = env.VERIF_ROOT
    p = subprocess.run([driver.PYTHON, "-m", "sim.core.driver", prop, "--runs", str(runs), "--no-evidence"],
                       cwd=env.VERIF_ROOT, env=e, capture_output=True, text=True, timeout=timeout)
    return p.returncode, p.stdout


def mutants(selection, runs=None):
    sys.path.insert(0, os.path.join(env.VERIF_ROOT, "mutants"))
    defs = importlib.import_module("defs").MUTANTS
    results = []
    for mid, prop, rel, old, new, note in defs:
        if selection and not any(s == mid or s == prop or mid.startswith(s) for s in selection):
            continue
        base, src = _scratch_src()
        try:
            path = os.path.join(src, "pygaps", rel)
            text = open(path).read()
            if old is None or old not in text:
                print(f"MUTANT {mid}: NOT-APPLICABLE (source text not found)")
                results.append((mid, "n/a"))
                continue
            open(path, "w").write(text.replace(old, new, 1))
            t0 = time.time()
            rc, out = run_check_on(src, prop, runs or MUT_RUNS[prop])
            sigs = [ln for ln in out.splitlines() if ln.startswith("violation:")]
            verdict = "CAUGHT" if rc == 1 else ("HARNESS-ERROR" if rc == 2 else "MISSED")
            print(f"MUTANT {mid} [{prop}]: {verdict} rc={rc} wall={time.time() - t0:.0f}s  {note}")
            for s in sigs[:2]:
                print("    " + s[:260])
            if rc == 2:
                print("    " + "\n    ".join(out.splitlines()[-4:])[:1200])
            results.append((mid, verdict))
        finally:
            shutil.rmtree(base, ignore_errors=True)
    caught = sum(1 for _, v in results if v == "CAUGHT")
    print(f"MUTANTS: {caught}/{len(results)} caught; missed: {[m for m, v in results if v != 'CAUGHT']}")
    return results


def benign(selection, runs=None):
    """Property-preserving refactors: the checks must stay silent (exit 0)."""
    sys.path.insert(0, os.path.join(env.VERIF_ROOT, "mutants"))
    defs = importlib.import_module("benign").BENIGN
    results = []
    for mid, prop, rel, old, new, note in defs:
        if selection and not any(s == mid or s == prop or mid.startswith(s) for s in selection):
            continue
        base, src = _scratch_src()
        try:
            path = os.path.join(src, "pygaps", rel)
            text = open(path).read()
            if old is None or old not in text:
                print(f"BENIGN {mid}: NOT-APPLICABLE (source text not found)")
                results.append((mid, "n/a"))
                continue
            open(path, "w").write(text.replace(old, new, 1))
            t0 = time.time()
            rc, out = run_check_on(src, prop, runs or {"C02": 6000, "C04": 800, "C08": 800, "C09": 48}[prop])
            verdict = "SILENT" if rc == 0 else ("FALSE-ALARM" if rc == 1 else "HARNESS-ERROR")
            print(f"BENIGN {mid} [{prop}]: {verdict} rc={rc} wall={time.time() - t0:.0f}s  {note}")
            if rc != 0:
                for ln in out.splitlines():
                    if ln.startswith(("violation:", "HARNESS", "detail")):
                        print("    " + ln[:400])
            results.append((mid, verdict))
        finally:
            shutil.rmtree(base, ignore_errors=True)
    print(f"BENIGN: {sum(1 for _, v in results if v == 'SILENT')}/{len(results)} silent; others: {[m for m, v in results if v != 'SILENT']}")
    return results


def seeded(selection):
    root = os.path.join(env.VERIF_ROOT, "seeded")
    results = []
    for sid in sorted(os.listdir(root)):
        d = os.path.join(root, sid)
        meta_p = os.path.join(d, "meta.json")
        if not os.path.isfile(meta_p):
            continue
        if selection and not any(sid.startswith(s) for s in selection):
            continue
        meta = json.load(open(meta_p))
        prop = meta["property"]
        if meta.get("out_of_scope"):
            # kept for the record: a change the check does not claim to see (reason in meta.json and DESIGN 11.13)
            print(f"SEEDED {sid} [{prop}]: OUT-OF-SCOPE (not run)")
            continue
        base = tempfile.mkdtemp(prefix="pgverif-seed-", dir=env.scratch_base())
        try:
            # a scratch copy of the whole repository tree (the patch may touch files outside src/)
            subprocess.run(["git", "-C", "/repo", "worktree", "add", "-q", "--detach", os.path.join(base, "wt")], check=True)
            wt = os.path.join(base, "wt")
            shutil.copyfile("/repo/src/pygaps/_version.py", os.path.join(wt, "src/pygaps/_version.py"))
            r = subprocess.run(["git", "-C", wt, "apply", os.path.join(d, "patch.diff")], capture_output=True, text=True)
            if r.returncode != 0:
                print(f"SEEDED {sid}: patch does not apply: {r.stderr[:300]}")
                results.append((sid, "n/a"))
                continue
            t0 = time.time()
            rc, out = run_check_on(os.path.join(wt, "src"), prop, meta.get("runs") or MUT_RUNS[prop])
            verdict = "CAUGHT" if rc == 1 else ("HARNESS-ERROR" if rc == 2 else "MISSED")
            sigs = [ln for ln in out.splitlines() if ln.startswith("violation:")]
            print(f"SEEDED {sid} [{prop}]: {verdict} rc={rc} wall={time.time() - t0:.0f}s")
            for s in sigs[:2]:
                print("    " + s[:260])
            results.append((sid, verdict))
        finally:
            subprocess.run(["git", "-C", "/repo", "worktree", "remove", "--force", os.path.join(base, "wt")], capture_output=True)
            subprocess.run(["git", "-C", "/repo", "worktree", "prune"], capture_output=True)
            shutil.rmtree(base, ignore_errors=True)
    print(f"SEEDED: {sum(1 for _, v in results if v == 'CAUGHT')}/{len(results)} caught")
    return results


def known(pinned=False):
    """Replays of every listed defect: `fixed` ones must no longer reproduce on the current tree, `known` ones must;
    with pinned=True all of them must reproduce on the pinned original tree (first commit of /repo's history)."""
    data = json.load(open(env.KNOWN_FILE))["findings"]
    e = dict(os.environ)
    e["PYTHONPATH"] = env.VERIF_ROOT
    base = None
    if pinned:
        root = subprocess.run(["git", "-C", "/repo", "rev-list", "--max-parents=0", "HEAD"], capture_output=True, text=True).stdout.split()[0]
        first = subprocess.run(["git", "-C", "/repo", "log", "--format=%H", "--reverse", "--grep=^fix:", f"{root}..HEAD"],
                               capture_output=True, text=True).stdout.split()[0]
        base = tempfile.mkdtemp(prefix="pgverif-pin-", dir=env.scratch_base())
        subprocess.run(["git", "-C", "/repo", "worktree", "add", "-q", "--detach", os.path.join(base, "wt"), first + "~1"], check=True)
        shutil.copyfile("/repo/src/pygaps/_version.py", os.path.join(base, "wt", "src/pygaps/_version.py"))
        e["VERIF_REPO_SRC"] = os.path.join(base, "wt", "src")
    ok = True
    try:
        for f in data:
            rp = os.path.join(env.VERIF_ROOT, f["replay"])
            p = subprocess.run([driver.PYTHON, "-m", "sim.core.driver", f["property"], "--replay", rp], cwd=env.VERIF_ROOT,
                               env=e, capture_output=True, text=True, timeout=900)
            want = 1 if (pinned or f["status"] == "known") else 3
            good = p.returncode == want
            # on the pinned tree a defect may surface under a neighbouring signature: any violation counts there
            ok = ok and good
            print(f"KNOWN {'pinned-tree' if pinned else 'current-tree'} {f['status']:5s} {os.path.basename(f['replay'])}: rc={p.returncode} "
                  f"{'ok' if good else 'UNEXPECTED'}")
    finally:
        if base:
            subprocess.run(["git", "-C", "/repo", "worktree", "remove", "--force", os.path.join(base, "wt")], capture_output=True)
            subprocess.run(["git", "-C", "/repo", "worktree", "prune"], capture_output=True)
            shutil.rmtree(base, ignore_errors=True)
    return ok


def main():
    ap = argparse.ArgumentParser()
    ap.add_argument("what", choices=["determinism", "mutants", "seeded", "known", "known-pinned", "benign"])
    ap.add_argument("sel", nargs="*")
    ap.add_argument("--runs", type=int)
    a = ap.parse_args()
    if a.what == "determinism":
        ok = determinism([s.upper() for s in a.sel] or PROPS, a.runs)
        sys.exit(0 if ok else 1)
    if a.what in ("known", "known-pinned"):
        sys.exit(0 if known(pinned=(a.what == "known-pinned")) else 1)
    if a.what == "benign":
        res = benign(a.sel, a.runs)
        sys.exit(0 if all(v == "SILENT" for _, v in res) else 1)
    if a.what == "mutants":
        res = mutants(a.sel, a.runs)
        sys.exit(0 if all(v == "CAUGHT" for _, v in res) else 1)
    res = seeded(a.sel)
    sys.exit(0 if all(v == "CAUGHT" for _, v in res) else 1)


if __name__ == "__main__":
    main()
