"""Outcome digests (DESIGN 2.4).

`canon(x)` turns any return value of a pyGAPS call into a JSON-able tree of
tagged nodes; `diff(a, b)` compares two such trees exactly for structure,
strings, ints, bools and error classes and with rtol=1e-9 for floats (NaN equals
NaN), returning the path of the first difference or None.

Nothing here may depend on object identity, `repr` with addresses, `hash()`, or
set iteration order.
"""
import hashlib
import json
import math

RTOL = 1e-9
ATOL = 1e-300

_MAX_ELEMS = 20000  # arrays larger than this are digested by sha256 of their bytes


def _f(x):
    x = float(x)
    if x != x:
        return ["f", "nan"]
    if x in (math.inf, -math.inf):
        return ["f", "inf" if x > 0 else "-inf"]
    return ["f", x.hex()]


def canon(x, _depth=0):
    """Canonical JSON-able form of a value."""
    import numpy
    import pandas
    if _depth > 12:
        return ["deep", type(x).__name__]
    if x is None:
        return ["none"]
    if isinstance(x, (bool, numpy.bool_)):
        return ["b", bool(x)]
    if isinstance(x, (int, numpy.integer)):
        return ["i", int(x)]
    if isinstance(x, (float, numpy.floating)):
        return _f(x)
    if isinstance(x, complex):
        return ["c", _f(x.real), _f(x.imag)]
    if isinstance(x, str):
        return ["s", x]
    if isinstance(x, bytes):
        return ["by", hashlib.sha256(x).hexdigest()]
    if isinstance(x, numpy.ndarray):
        if x.size > _MAX_ELEMS:
            return ["ndbig", list(x.shape), x.dtype.kind,
                    hashlib.sha256(numpy.ascontiguousarray(x).tobytes()).hexdigest()]
        return ["nd", list(x.shape), x.dtype.kind, [canon(v, _depth + 1) for v in x.ravel().tolist()]]
    if isinstance(x, pandas.Series):
        return ["series", [canon(v, _depth + 1) for v in x.index.tolist()], x.dtype.kind,
                [canon(v, _depth + 1) for v in x.tolist()]]
    if isinstance(x, pandas.DataFrame):
        return ["df", [canon(c, _depth + 1) for c in x.columns.tolist()],
                [canon(v, _depth + 1) for v in x.index.tolist()],
                [[x[c].dtype.kind, [canon(v, _depth + 1) for v in x[c].tolist()]] for c in x.columns]]
    if isinstance(x, dict):
        items = [(canon(k, _depth + 1), canon(v, _depth + 1)) for k, v in x.items()]
        items.sort(key=lambda kv: json.dumps(kv[0], sort_keys=True))
        return ["d", [[k, v] for k, v in items]]
    if isinstance(x, (list, tuple)):
        return ["l" if isinstance(x, list) else "t", [canon(v, _depth + 1) for v in x]]
    if isinstance(x, (set, frozenset)):
        items = [canon(v, _depth + 1) for v in x]
        items.sort(key=lambda v: json.dumps(v, sort_keys=True))
        return ["set", items]
    # pyGAPS objects, recognised by duck typing so that the harness does not
    # need the classes at import time
    tname = type(x).__name__
    mod = type(x).__module__ or ""
    if mod.startswith("pygaps"):
        if hasattr(x, "iso_id") and hasattr(x, "to_dict"):
            return canon_isotherm(x, _depth + 1)
        if hasattr(x, "to_dict") and hasattr(x, "name"):
            try:
                return ["pgobj", tname, canon(x.to_dict(), _depth + 1)]
            except Exception as e:  # pragma: no cover
                return ["pgobj-err", tname, type(e).__name__]
        return ["pg", tname]
    if callable(x):
        return ["callable"]
    return ["obj", tname]


def canon_isotherm(iso, _depth=0):
    """Full observable content of an isotherm (labels, metadata, data / model)."""
    tname = type(iso).__name__
    out = ["iso", tname]
    try:
        out.append(canon(iso.to_dict(), _depth + 1))
    except Exception as e:
        out.append(["to_dict-err", type(e).__name__])
    if hasattr(iso, "data_raw"):
        out.append(canon(iso.data_raw, _depth + 1))
    elif hasattr(iso, "model"):
        try:
            out.append(canon(iso.model.to_dict(), _depth + 1))
        except Exception as e:
            out.append(["model-err", type(e).__name__])
    return out


def canon_error(exc):
    """Exceptions are digested by class and family only, never by message."""
    is_pg = False
    for klass in type(exc).__mro__:
        if klass.__name__ == "pgError":
            is_pg = True
    return ["error", type(exc).__name__, is_pg]


def is_error(c):
    return isinstance(c, list) and len(c) == 3 and c[0] == "error"


def _float_of(node):
    v = node[1]
    if v == "nan":
        return math.nan
    if v == "inf":
        return math.inf
    if v == "-inf":
        return -math.inf
    return float.fromhex(v)


class DiffStats:
    __slots__ = ("floats", "exact")

    def __init__(self):
        self.floats = 0
        self.exact = 0


def _num(node):
    if isinstance(node, list) and len(node) == 2:
        if node[0] == "b":
            return 1.0 if node[1] else 0.0
        if node[0] == "i":
            return float(node[1])
        if node[0] == "f" and isinstance(node[1], str):
            return _float_of(node)
    return None


def diff(a, b, path="", rtol=RTOL, stats=None, loose_numbers=False):
    """Return None if equal (floats within tolerance), else a short path string.

    loose_numbers: a bool, an int and a float of the same numeric value count as equal (a REAL column returns 1.0 for
    True); anything else - e.g. True coming back as the text 'TRUE' - is still a difference."""
    if loose_numbers:
        na, nb = _num(a), _num(b)
        if na is not None and nb is not None and a[0] != b[0]:
            return None if (na == nb or (na != na and nb != nb)) else path + ":value"
    if isinstance(a, list) and isinstance(b, list):
        if a and b and a[0] == "f" and b[0] == "f" and len(a) == 2 and len(b) == 2 \
                and isinstance(a[1], str) and isinstance(b[1], str):
            if stats is not None:
                stats.floats += 1
            if a[1] == b[1]:
                if stats is not None:
                    stats.exact += 1
                return None
            fa, fb = _float_of(a), _float_of(b)
            if fa != fa or fb != fb or math.isinf(fa) or math.isinf(fb):
                return path + ":float"
            if abs(fa - fb) <= ATOL + rtol * max(abs(fa), abs(fb)):
                return None
            return path + ":float"
        if len(a) != len(b):
            return path + ":len"
        for i, (x, y) in enumerate(zip(a, b)):
            d = diff(x, y, f"{path}/{i}", rtol, stats, loose_numbers)
            if d is not None:
                return d
        return None
    if type(a) is not type(b):
        return path + ":type"
    if a != b:
        return path + ":value"
    return None


def sha(obj):
    return hashlib.sha256(json.dumps(obj, sort_keys=True, separators=(",", ":")).encode()).hexdigest()
