"""Delta debugging on lists (Zeller's ddmin, simplified) with a test-call budget."""


def ddmin(items, test, budget=400):
    """Return a (locally) minimal sublist of `items` for which test(sublist) is True.

    test(items) is assumed True.  At most `budget` test calls.
    """
    calls = [0]

    def t(c):
        if calls[0] >= budget:
            return False
        calls[0] += 1
        return test(c)

    n = 2
    cur = list(items)
    while len(cur) >= 2 and calls[0] < budget:
        chunk = max(1, len(cur) // n)
        subsets = [cur[i:i + chunk] for i in range(0, len(cur), chunk)]
        reduced = False
        # try complements (drop one chunk)
        for i in range(len(subsets)):
            comp = [x for j, s in enumerate(subsets) if j != i for x in s]
            if comp and t(comp):
                cur = comp
                n = max(n - 1, 2)
                reduced = True
                break
        if not reduced:
            if n >= len(cur):
                break
            n = min(len(cur), n * 2)
    # final single-element elimination pass
    i = 0
    while i < len(cur) and len(cur) > 1 and calls[0] < budget:
        cand = cur[:i] + cur[i + 1:]
        if t(cand):
            cur = cand
        else:
            i += 1
    return cur, calls[0]
