"""Auditor: a long-lived interpreter started with ANOTHER PYTHONHASHSEED that only ever READS scratch databases
(C08 thorough tier, DESIGN 2.1).  JSON lines: {"dbmap": {...}, "ops": [retrieval ops]} -> {"replies": [...]}.
"""
import json
import os
import sys

sys.path.insert(0, os.path.dirname(os.path.dirname(os.path.abspath(__file__))))
from sim.core import env  # noqa: E402


def main():
    proto = os.fdopen(os.dup(1), "w", buffering=1)
    os.dup2(2, 1)
    sys.stdout = sys.stderr
    env.boot_pygaps()
    from sim.checks import storeops
    proto.write(json.dumps({"ok": True, "hashseed": os.environ.get("PYTHONHASHSEED")}) + "\n")
    for line in sys.stdin:
        line = line.strip()
        if not line:
            continue
        msg = json.loads(line)
        if msg.get("cmd") == "exit":
            break
        state = {}
        replies = []
        for op in msg["ops"]:
            if not op["op"].endswith("_from_db"):
                replies.append({"outcome": "error:NotARetrieval"})
                continue
            replies.append(storeops.exec_op(op, msg["dbmap"], state))
        proto.write(json.dumps({"replies": replies}) + "\n")
    os._exit(0)


main()
