"""Reference model for C02: original columns + a direct conversion to any representation.

The model keeps the ORIGINAL columns and start labels and never looks at the
isotherm's data.  `pressure_in` / `loading_in` express the originals directly in
a requested representation.  Unit tables and physical constants are passed in
(read from the library: what a factor *is* belongs to C01, not to C02); which
factors are combined, in which direction, and how a fraction/percent basis is
tied to the material basis is this module's own composition logic.

A conversion that needs a constant the world does not have is IMPOSSIBLE.
"""

IMPOSSIBLE = None


class Impossible(Exception):
    pass


class Tables:
    """Unit tables as read from the library (name -> size in base units)."""

    def __init__(self, pressure, mass, volume, molar):
        self.pressure = pressure
        self.mass = mass
        self.volume = volume
        self.molar = molar

    def loading_units(self, basis):
        return {"mass": self.mass, "volume_gas": self.volume, "volume_liquid": self.volume,
                "molar": self.molar}.get(basis)

    def material_units(self, basis):
        return {"mass": self.mass, "volume": self.volume, "molar": self.molar}.get(basis)


PRESSURE_MODES = ("absolute", "relative", "relative%")
LOADING_BASES = ("mass", "volume_gas", "volume_liquid", "molar", "percent", "fraction")
MATERIAL_BASES = ("mass", "volume", "molar")


def labels_valid(tables, lab):
    """The constructor's acceptance rule, restated (used only for generation; the
    oracle asks the real constructor)."""
    if lab["pressure_mode"] not in PRESSURE_MODES:
        return False
    if lab["pressure_mode"] == "absolute" and lab["pressure_unit"] not in tables.pressure:
        return False
    if lab["loading_basis"] not in LOADING_BASES or lab["material_basis"] not in MATERIAL_BASES:
        return False
    if lab["loading_basis"] not in ("percent", "fraction"):
        if lab["loading_unit"] not in tables.loading_units(lab["loading_basis"]):
            return False
        if lab["material_unit"] not in tables.material_units(lab["material_basis"]):
            return False
    return True


class RefModel:
    """consts: dict with keys molar_mass, gas_density, gas_molar_density, liquid_density,
    liquid_molar_density, saturation_pressure (Pa), mat_density, mat_molar_mass; value None = unavailable."""

    def __init__(self, tables, consts, start_labels, p0, l0):
        self.t = tables
        self.c = consts
        self.start = dict(start_labels)
        self.p0 = list(p0)
        self.l0 = list(l0)

    # ---------------- adsorbate amount: base units mol / g / cm3(gas) / cm3(liquid)
    def _ads_edges(self):
        c = self.c
        e = {}

        def add(a, b, f):  # amount_b = amount_a * f
            if f is not None and f == f and f not in (0.0, float("inf"), float("-inf")):
                e[(a, b)] = f
                e[(b, a)] = 1.0 / f

        add("molar", "mass", c.get("molar_mass"))
        gmd = c.get("gas_molar_density")
        lmd = c.get("liquid_molar_density")
        add("volume_gas", "molar", gmd)
        add("volume_liquid", "molar", lmd)
        add("volume_gas", "mass", c.get("gas_density"))
        add("volume_liquid", "mass", c.get("liquid_density"))
        if gmd is not None and lmd is not None:
            add("volume_gas", "volume_liquid", gmd / lmd)
        return e

    def _mat_edges(self):
        c = self.c
        e = {}

        def add(a, b, f):  # amount_b = amount_a * f
            if f is not None and f == f and f not in (0.0, float("inf"), float("-inf")):
                e[(a, b)] = f
                e[(b, a)] = 1.0 / f

        d, m = c.get("mat_density"), c.get("mat_molar_mass")
        add("volume", "mass", d)            # g = cm3 * density
        add("molar", "mass", m)             # g = mol * molar mass
        if d is not None and m is not None:
            add("molar", "volume", m / d)   # cm3 = mol * M / rho
        return e

    @staticmethod
    def _path_factor(edges, a, b):
        if a == b:
            return 1.0
        # breadth-first over at most 4 nodes
        frontier = [(a, 1.0)]
        seen = {a}
        while frontier:
            nxt = []
            for node, f in frontier:
                for (x, y), g in sorted(edges.items()):
                    if x == node and y not in seen:
                        if y == b:
                            return f * g
                        seen.add(y)
                        nxt.append((y, f * g))
            frontier = nxt
        raise Impossible(f"no path {a}->{b}")

    # ---------------- loading
    def _eff_basis(self, lb, mb):
        if lb in ("percent", "fraction"):
            return "volume_liquid" if mb == "volume" else mb
        return lb

    def _q_from(self, value, lb, lu, mb, mu):
        """value in (lb,lu,mb,mu) -> adsorbate base amount per material base amount."""
        if lb == "fraction":
            return value
        if lb == "percent":
            return value / 100.0
        lut = self.t.loading_units(lb)
        mut = self.t.material_units(mb)
        if lut is None or mut is None or lu not in lut or mu not in mut:
            raise Impossible("bad unit")
        return value * lut[lu] / mut[mu]

    def _q_to(self, q, lb, lu, mb, mu):
        if lb == "fraction":
            return q
        if lb == "percent":
            return q * 100.0
        lut = self.t.loading_units(lb)
        mut = self.t.material_units(mb)
        if lut is None or mut is None or lu not in lut or mu not in mut:
            raise Impossible("bad unit")
        return q * mut[mu] / lut[lu]

    def loading_factor_fn(self, lab_to):
        s = self.start
        lb1, lu1, mb1, mu1 = s["loading_basis"], s["loading_unit"], s["material_basis"], s["material_unit"]
        lb2, lu2, mb2, mu2 = (lab_to["loading_basis"], lab_to["loading_unit"],
                              lab_to["material_basis"], lab_to["material_unit"])
        if lb2 not in LOADING_BASES or mb2 not in MATERIAL_BASES:
            raise Impossible("bad basis")
        e1 = self._eff_basis(lb1, mb1)
        e2 = self._eff_basis(lb2, mb2)
        fa = self._path_factor(self._ads_edges(), e1, e2)       # adsorbate amount e1 -> e2
        fm = self._path_factor(self._mat_edges(), mb1, mb2)     # material amount mb1 -> mb2

        def fn(v):
            q1 = self._q_from(v, lb1, lu1, mb1, mu1)
            q2 = q1 * fa / fm
            return self._q_to(q2, lb2, lu2, mb2, mu2)
        return fn

    def loading_in(self, lab_to):
        try:
            fn = self.loading_factor_fn(lab_to)
            return [fn(v) for v in self.l0]
        except Impossible:
            return IMPOSSIBLE

    # ---------------- pressure
    def pressure_in(self, lab_to):
        s = self.start
        m1, u1 = s["pressure_mode"], s["pressure_unit"]
        m2, u2 = lab_to["pressure_mode"], lab_to["pressure_unit"]
        if m2 not in PRESSURE_MODES:
            return IMPOSSIBLE
        try:
            def rel_of(v):  # relative value (fraction of saturation)
                if m1 == "relative":
                    return v
                if m1 == "relative%":
                    return v / 100.0
                raise Impossible

            if m1 == "absolute":
                if u1 not in self.t.pressure:
                    raise Impossible
                pa = [v * self.t.pressure[u1] for v in self.p0]
                if m2 == "absolute":
                    if u2 not in self.t.pressure:
                        raise Impossible
                    return [v / self.t.pressure[u2] for v in pa]
                ps = self.c.get("saturation_pressure")
                if ps is None:
                    raise Impossible
                k = 1.0 if m2 == "relative" else 100.0
                return [v / ps * k for v in pa]
            rel = [rel_of(v) for v in self.p0]
            if m2 == "relative":
                return rel
            if m2 == "relative%":
                return [v * 100.0 for v in rel]
            ps = self.c.get("saturation_pressure")
            if ps is None or u2 not in self.t.pressure:
                raise Impossible
            return [v * ps / self.t.pressure[u2] for v in rel]
        except Impossible:
            return IMPOSSIBLE
