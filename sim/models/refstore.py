"""Dictionary model of one pyGAPS SQLite file (C08, C09).

Plain dictionaries: adsorbates by name, materials by name, three property-type
tables and the isotherm-type table by type, isotherms by identifier.  The rules
are the sentences of property C08 and nothing more; where the property leaves an
outcome open the class is MAY_REFUSE and the check verifies the consequence of
whichever happened.  The model knows nothing about sessions, other files, or what
was uploaded earlier in a process.
"""
import copy
import json

MUST_REFUSE = "must_refuse"
MUST_ACCEPT = "must_accept"
MAY_REFUSE = "may_refuse"

ISO_TYPE_OF = {"BaseIsotherm": "isotherm", "PointIsotherm": "pointisotherm", "ModelIsotherm": "modelisotherm"}


def _cd(c):
    """canon dict node -> python dict key(str) -> canon value"""
    assert c[0] == "d", c
    out = {}
    for k, v in c[1]:
        out[k[1] if k[0] == "s" else json.dumps(k)] = v
    return out


def _storable_scalar(v, allow_bool=False):
    """Required value domain: finite float, non-numeric text (and bool for isotherm metadata)."""
    t = v[0]
    if t == "f":
        return v[1] not in ("nan", "inf", "-inf")
    if t == "s":
        s = v[1].strip()
        if s.upper() in ("TRUE", "FALSE") or s == "":
            return False
        try:
            float(s)
            return False
        except ValueError:
            return True
    if t == "b":
        return allow_bool
    return False


def props_domain(content, list_ok=("alias",)):
    """'required' if every property value is in the required domain, else 'open'."""
    d = _cd(content)
    for k, v in d.items():
        if k == "name":
            continue
        if v[0] == "l":
            if k in list_ok and len(v[1]) >= 1 and all(_storable_scalar(x) for x in v[1]):
                continue
            return "open"
        if not _storable_scalar(v):
            return "open"
    return "required"


class FileModel:
    def __init__(self):
        self.ads = {}      # name -> content
        self.mats = {}     # name -> content
        self.ptypes = {"adsorbate": {}, "material": {}, "isotherm": {}, "isotype": {}}  # type -> {unit, description}
        self.isos = {}     # iso_id -> entry

    def clone(self):
        return copy.deepcopy(self)

    # ------------------------------------------------------------------ helpers
    @staticmethod
    def prop_names(content):
        return [k for k in _cd(content) if k != "name"]

    def refs_adsorbate(self, name):
        return any(e["aname"] == name for e in self.isos.values())

    def refs_material(self, name):
        return any(e["mname"] == name for e in self.isos.values())

    def refs_ptype(self, table, typ):
        if table == "adsorbate":
            return any(typ in self.prop_names(c) for c in self.ads.values())
        if table == "material":
            return any(typ in self.prop_names(c) for c in self.mats.values())
        if table == "isotype":
            return any(e["iso_type"] == typ for e in self.isos.values())
        return False

    # ------------------------------------------------------------------ classification
    def classify(self, op, reply):
        """-> (class, reason).  `reply` carries the uploader's view of the object (content)."""
        o = op["op"]
        if o in ("adsorbate_to_db", "material_to_db"):
            table = "adsorbate" if o.startswith("ads") else "material"
            store = self.ads if table == "adsorbate" else self.mats
            c = reply["uploaded"]
            name = _cd(c)["name"][1]
            pn = self.prop_names(c)
            missing = [p for p in pn if p not in self.ptypes[table]]
            dom = props_domain(c, list_ok=("alias",) if table == "adsorbate" else ())
            if op.get("overwrite"):
                if name not in store:
                    return MAY_REFUSE, "overwrite-absent"
                if missing and not op.get("autoinsert_properties", True):
                    return MUST_REFUSE, "unknown-reference"
                return (MUST_ACCEPT if dom == "required" else MAY_REFUSE), "overwrite"
            if name in store:
                return MUST_REFUSE, "duplicate"
            if missing and not op.get("autoinsert_properties", True):
                return MUST_REFUSE, "unknown-reference"
            return (MUST_ACCEPT if dom == "required" else MAY_REFUSE), "insert"
        if o in ("adsorbate_delete_db", "material_delete_db"):
            table = "adsorbate" if o.startswith("ads") else "material"
            store = self.ads if table == "adsorbate" else self.mats
            if op["name"] not in store:
                return MUST_REFUSE, "absent"
            ref = self.refs_adsorbate(op["name"]) if table == "adsorbate" else self.refs_material(op["name"])
            return (MAY_REFUSE, "referenced") if ref else (MUST_ACCEPT, "delete")
        if o == "ptype_to_db":
            t = op["type_dict"].get("type")
            tab = self.ptypes[op["table"]]
            if t is None:
                return MAY_REFUSE, "no-type"
            if op.get("overwrite"):
                return (MUST_ACCEPT, "overwrite") if t in tab else (MAY_REFUSE, "overwrite-absent")
            return (MUST_REFUSE, "duplicate") if t in tab else (MUST_ACCEPT, "insert")
        if o == "ptype_delete_db":
            tab = self.ptypes[op["table"]]
            if op["type"] not in tab:
                return MUST_REFUSE, "absent"
            return (MAY_REFUSE, "referenced") if self.refs_ptype(op["table"], op["type"]) else (MUST_ACCEPT, "delete")
        if o == "isotherm_to_db":
            return self._classify_iso_upload(op, reply["uploaded"])
        if o == "isotherm_delete_db":
            key = self._delete_key(op, reply)
            if key is None:
                return MUST_REFUSE, "absent"
            if op.get("by") == "retrieved" and not self.consistent(key):
                # the uploader described the material differently from the file's entry for that name: the
                # retrieved object cannot carry the uploader's identifier, so nothing is required here
                return MAY_REFUSE, "delete-inconsistent-material"
            return MUST_ACCEPT, "delete"
        if o in ("adsorbates_from_db", "materials_from_db", "ptypes_from_db", "isotherms_from_db"):
            return MUST_ACCEPT, "retrieve"
        raise ValueError(o)

    @staticmethod
    def content_key(c):
        """What an isotherm IS: type, labels, metadata, material (name and properties), adsorbate, data incl. the order
        of points and branch marks.  Two uploads are duplicates iff this is equal - an identifier that coincides for
        different content (or differs for equal content) does not change that."""
        return json.dumps([c["loose"], c["mat"]], sort_keys=True)

    def _classify_iso_upload(self, op, c):
        ck = self.content_key(c)
        if any(e.get("ck") == ck for e in self.isos.values()):
            return MUST_REFUSE, "duplicate"
        it = ISO_TYPE_OF.get(c["type"])
        if it not in self.ptypes["isotype"]:
            return MUST_REFUSE, "unknown-reference"
        if c["mname"] not in self.mats and not op.get("autoinsert_material", True):
            return MUST_REFUSE, "unknown-reference"
        if c["aname"] not in self.ads and not op.get("autoinsert_adsorbate", True):
            return MUST_REFUSE, "unknown-reference"
        dom = "required"
        d = _cd(c["d"])
        for k, v in d.items():
            if k in ("adsorbate", "temperature"):
                continue
            if not _storable_scalar(v, allow_bool=True):
                dom = "open"
        if c["mname"] not in self.mats and props_domain(c["mat"], ()) != "required":
            dom = "open"
        if c["aname"] not in self.ads and props_domain(c["ads"], ("alias",)) != "required":
            dom = "open"
        if c["type"] == "PointIsotherm":
            df = c["data"]
            for cname, (kind, _vals) in zip(df[1], df[3]):
                if cname == ["s", "branch"]:
                    ok = kind in ("b", "i")          # branch marks
                else:
                    ok = kind in ("f", "O", "U", "T")  # float or text columns
                if not ok:
                    dom = "open"
            # default row labels only
            if df[2] != [["i", i] for i in range(len(df[2]))]:
                dom = "open"
        return (MUST_ACCEPT if dom == "required" else MAY_REFUSE), "insert"

    def _delete_key(self, op, reply):
        by = op.get("by", "id")
        if by == "id":
            return op["iso_id"] if op["iso_id"] in self.isos else None
        tgt = reply.get("target")
        if tgt is None:
            return None
        if by == "object":
            return tgt["iso_id"] if tgt["iso_id"] in self.isos else None
        # through a retrieved object: identified by what it contains
        ks = [k for k, e in self.isos.items() if e["content"]["loose"] == tgt["loose"]]
        if tgt["iso_id"] in ks:
            return tgt["iso_id"]
        return ks[0] if ks else None

    def consistent(self, key):
        """Did the uploader describe the isotherm's material exactly as this file's entry does?"""
        from sim.core import digest as dg
        e = self.isos[key]
        fmat = self.mats.get(e["mname"])
        # strictly: the identifier distinguishes True from 1.0, so only an exactly equal description obliges it to match
        # ... and only values of the required domain come back with their type (True comes back as 1.0)
        return fmat is not None and dg.diff(e["content"]["mat"], fmat, rtol=0.0) is None and props_domain(fmat, ()) == "required"

    # ------------------------------------------------------------------ effects
    def apply(self, op, reply):
        o = op["op"]
        if o in ("adsorbate_to_db", "material_to_db"):
            table = "adsorbate" if o.startswith("ads") else "material"
            store = self.ads if table == "adsorbate" else self.mats
            c = reply["uploaded"]
            name = _cd(c)["name"][1]
            store[name] = c
            if op.get("autoinsert_properties", True):
                for p in self.prop_names(c):
                    self.ptypes[table].setdefault(p, {"unit": None, "description": None})
        elif o == "adsorbate_delete_db":
            self.ads.pop(op["name"], None)
        elif o == "material_delete_db":
            self.mats.pop(op["name"], None)
        elif o == "ptype_to_db":
            td = op["type_dict"]
            ent = {"description": td.get("description")}
            if op["table"] != "isotype":
                ent["unit"] = td.get("unit")
            self.ptypes[op["table"]][td["type"]] = ent
        elif o == "ptype_delete_db":
            self.ptypes[op["table"]].pop(op["type"], None)
        elif o == "isotherm_to_db":
            self._apply_iso(op, reply["uploaded"])
        elif o == "isotherm_delete_db":
            k = self._delete_key(op, reply)
            if k is not None:
                del self.isos[k]

    def _apply_iso(self, op, c):
        if c["mname"] not in self.mats:
            self.mats[c["mname"]] = c["mat"]
            for p in self.prop_names(c["mat"]):
                self.ptypes["material"].setdefault(p, {"unit": None, "description": None})
        if c["aname"] not in self.ads:
            self.ads[c["aname"]] = c["ads"]
            for p in self.prop_names(c["ads"]):
                self.ptypes["adsorbate"].setdefault(p, {"unit": None, "description": None})
        self.isos[c["iso_id"]] = {"content": c, "ck": self.content_key(c), "mname": c["mname"], "aname": c["aname"],
                                  "iso_type": ISO_TYPE_OF.get(c["type"]), "temperature": c["temperature"]}

    # ------------------------------------------------------------------ expected retrievals
    def expected_isotherms(self, criteria):
        out = {}
        for k, e in self.isos.items():
            ok = True
            for ck, cv in (criteria or {}).items():
                if ck == "material" and e["mname"] != cv:
                    ok = False
                elif ck == "adsorbate" and e["aname"] != cv:
                    ok = False
                elif ck == "iso_type" and e["iso_type"] != cv:
                    ok = False
                elif ck == "id" and k != cv:
                    ok = False
                elif ck == "temperature":
                    t = e["temperature"]
                    tv = float.fromhex(t[1]) if t[0] == "f" else None
                    if tv != float(cv):
                        ok = False
            if ok:
                out[k] = e
        return out

    def abstract_state(self, universe):
        """Which universe keys are present, per table (reach measure)."""
        parts = []
        for n in universe.get("ads", []):
            parts.append("1" if n in self.ads else "0")
        parts.append("|")
        for n in universe.get("mats", []):
            parts.append("1" if n in self.mats else "0")
        parts.append("|%d" % min(len(self.isos), 9))
        return "".join(parts)
