"""Entry point of a worker process (kept separate so that sim.core.worker is imported once)."""
import os
import sys

sys.path.insert(0, os.path.dirname(os.path.dirname(os.path.abspath(__file__))))
from sim.core import worker  # noqa: E402

worker.main()
