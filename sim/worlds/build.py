"""JSON world specs -> pyGAPS objects (built inside sessions, never in the worker).

Spec shapes
-----------
adsorbate: {"name": str, "alias": [..]?, <property>: value ...}
material : {"name": str, <property>: value ...}
isotherm : {"kind": "point"|"model"|"base",
            "material": str | {"name":..., props},
            "adsorbate": str, "temperature": float,
            "units": {7 labels}, "meta": {...},
            point: "pressure": [...], "loading": [...], "branch": "guess"|"ads"|"des"|[0/1..],
                   "other": {col: [...]} (optional), "route": "arrays"|"frame"
            model: "model": {"name":..., "parameters": {...}, "rmse":..., "pressure_range":[..], "loading_range":[..]}
                   or "fit": {"from": <point spec>, "model": name}
           }
"""
import copy


def make_adsorbate(spec, register=False):
    import pygaps
    d = copy.deepcopy(spec)
    name = d.pop("name")
    ads = pygaps.Adsorbate(name, **d)
    if register:
        pygaps.ADSORBATE_LIST.append(ads)
    return ads


def make_material(spec, register=False):
    import pygaps
    d = copy.deepcopy(spec)
    name = d.pop("name")
    mat = pygaps.Material(name, **d)
    if register:
        pygaps.MATERIAL_LIST.append(mat)
    return mat


def register_world(world):
    """Append the world's user adsorbates / materials to the in-memory registries
    (the documented route for gases pyGAPS does not ship)."""
    for a in world.get("adsorbates", []):
        make_adsorbate(a, register=True)
    for m in world.get("materials", []):
        make_material(m, register=True)


def make_isotherm(spec):
    iso = _make_isotherm(spec)
    if spec.get("adsorbate_object"):
        # the user (re)defines the adsorbate and assigns the object: a second Adsorbate of the same name may exist
        import pygaps
        iso.adsorbate = pygaps.Adsorbate(spec["adsorbate"], **copy.deepcopy(spec["adsorbate_object"]))
    return iso


def _monolith(d):
    """A Material subclass whose density is computed (envelope density of a shaped body) instead of stored."""
    import pygaps

    class Monolith(pygaps.Material):
        @property
        def density(self):
            return self.properties["skeletal_density"] * (1 - self.properties["porosity"])

    d = dict(d)
    d.pop("__class__")
    return Monolith(d.pop("name"), **d)


def _cell(x):
    """A reading a JSON spec cannot carry as such: {"__py__": "bytes"|"decimal"} stands for such a Python object."""
    if isinstance(x, dict) and "__py__" in x:
        if x["__py__"] == "bytes":
            return b"xy"
        import decimal
        return decimal.Decimal("1.5")
    return x


def _make_isotherm(spec):
    import pandas
    import pygaps
    from pygaps.core.baseisotherm import BaseIsotherm
    kind = spec["kind"]
    material = copy.deepcopy(spec["material"])
    if isinstance(material, dict) and material.get("__class__") == "Monolith":
        material = _monolith(material)
    common = dict(material=material, adsorbate=spec["adsorbate"], temperature=spec["temperature"])
    common.update(copy.deepcopy(spec.get("units", {})))
    meta = copy.deepcopy(spec.get("meta", {}))
    for k in [k for k in meta if k.endswith("__np")]:
        import numpy
        meta[k[:-4]] = [numpy.float64(x) for x in meta.pop(k)]      # users do put numpy scalars into metadata
    common.update(meta)
    if kind == "base":
        return BaseIsotherm(**common)
    if kind == "point":
        branch = spec.get("branch", "guess")
        other = spec.get("other") or {}
        route = spec.get("route", "frame" if other else "arrays")
        if route == "arrays" and not other:
            return pygaps.PointIsotherm(
                pressure=list(spec["pressure"]), loading=list(spec["loading"]),
                branch=(list(branch) if isinstance(branch, list) else branch), **common)
        pk, lk = spec.get("keys", ["pressure", "loading"])
        cols = {pk: list(spec["pressure"]), lk: list(spec["loading"])}
        for k, v in other.items():
            cols[k] = [_cell(x) for x in v]
        if isinstance(branch, list) and spec.get("branch_in_frame", False):
            cols["branch"] = list(branch)
            df = pandas.DataFrame(cols)
            if spec.get("index"):
                df.index = list(spec["index"])
            return pygaps.PointIsotherm(isotherm_data=df, pressure_key=pk, loading_key=lk, **common)
        df = pandas.DataFrame(cols)
        if spec.get("index"):
            df.index = list(spec["index"])      # row labels other than 0..n-1 (a filtered / sorted / labelled user frame)
        return pygaps.PointIsotherm(
            isotherm_data=df, pressure_key=pk, loading_key=lk,
            branch=(list(branch) if isinstance(branch, list) else branch), **common)
    if kind == "model":
        if "fit" in spec:
            src = _make_isotherm(spec["fit"]["from"])
            return pygaps.ModelIsotherm.from_pointisotherm(
                src, model=spec["fit"]["model"], verbose=False, **spec["fit"].get("kwargs", {}))
        from pygaps.modelling import model_from_dict
        model = model_from_dict(copy.deepcopy(spec["model"]))
        return pygaps.ModelIsotherm(model=model, **common)
    raise ValueError("unknown isotherm kind " + str(kind))
