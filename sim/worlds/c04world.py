"""Synthetic, constructor-built worlds for C04 (DESIGN 4.2).

A world is a list of isotherm specs (sim/worlds/build.py shapes) sharing registry
adsorbates, plus user adsorbates to register.  All numbers come from closed
formulas of the run's PRNG draws - no parser is in the trusted path.
"""
import math

P0_N2_77 = 1.0  # the data are generated in relative pressure and stored in a drawn representation


def _type_iv(rng, hysteresis=True, micro=True):
    """N2 / 77 K style isotherm in relative pressure, loading in mmol/g; adsorption then desorption."""
    nm = rng.uniform(1.5, 4.0)          # BET monolayer
    c = rng.uniform(60, 250)
    vmic = rng.uniform(0.5, 3.0) if micro else 0.0
    kmic = rng.uniform(2e4, 2e5)
    vmeso = rng.uniform(3.0, 9.0)
    pc_ads = rng.uniform(0.42, 0.6)
    width = rng.uniform(0.012, 0.03)
    pc_des = pc_ads - rng.uniform(0.05, 0.12)
    kgab = rng.uniform(0.72, 0.82)

    def f(p, pc):
        x = kgab * p
        multilayer = nm * c * x / ((1 - x) * (1 - x + c * x))
        microp = vmic * kmic * p / (1 + kmic * p)
        meso = vmeso / (1 + math.exp(-(p - pc) / width))
        return multilayer + microp + meso

    n_low = rng.randint(6, 10)
    grid = [10 ** (-6 + 4 * i / (n_low - 1)) for i in range(n_low)]
    n_hi = rng.randint(22, 40)
    grid += [0.02 + (0.95 - 0.02) * i / (n_hi - 1) for i in range(n_hi)]
    p_ads = grid
    l_ads = [f(p, pc_ads) for p in p_ads]
    if rng.random() < 0.3:
        # saturation plateau: the last adsorption points have exactly the same loading
        k = rng.randint(2, 3)
        for i in range(1, k + 1):
            l_ads[-i] = l_ads[-k - 1]
    p, l = list(p_ads), list(l_ads)
    if hysteresis:
        n_des = rng.randint(10, 18)
        hi = p_ads[-1]
        for i in range(1, n_des + 1):
            pp = hi - (hi - 0.12) * i / n_des
            p.append(pp)
            l.append(max(f(pp, pc_des), f(pp, pc_ads)) * 1.0005)
    return p, l


def _type_ii(rng):
    nm = rng.uniform(0.4, 1.2)
    c = rng.uniform(80, 200)
    kgab = rng.uniform(0.78, 0.88)
    n = rng.randint(24, 40)
    grid = [10 ** (-6.5 + 4.5 * i / 9) for i in range(10)] + [0.011 + (0.97 - 0.011) * i / (n - 1) for i in range(n)]
    grid = sorted(set(round(g, 9) for g in grid))
    l = []
    for p in grid:
        x = kgab * p
        l.append(nm * c * x / ((1 - x) * (1 - x + c * x)))
    return grid, l


def _toth(rng, T, q_st=None):
    """Langmuir/Toth shaped loading vs absolute pressure (bar) with van't Hoff temperature dependence."""
    nm = rng.uniform(3.0, 7.0)
    k0 = rng.uniform(0.4, 2.5)          # 1/bar at 298.15 K
    q = q_st if q_st is not None else rng.uniform(18e3, 32e3)   # J/mol
    t = rng.choice([1.0, 1.0, rng.uniform(0.55, 0.9)])
    k = k0 * math.exp(q / 8.314462618 * (1.0 / T - 1.0 / 298.15))
    n = rng.randint(12, 26)
    pmax = rng.uniform(5.0, 12.0)
    grid = [0.01 * (pmax / 0.01) ** (i / (n - 1)) for i in range(n)]
    l = [nm * k * p / (1 + (k * p) ** t) ** (1.0 / t) for p in grid]
    if rng.random() < 0.15:
        l[-1] = l[-2]
    return grid, l, {"nm": nm, "k0": k0, "q": q, "t": t}


N2_REPS = [
    {"pressure_mode": "relative", "pressure_unit": None},
    {"pressure_mode": "relative%", "pressure_unit": None},
    {"pressure_mode": "absolute", "pressure_unit": "bar"},
    {"pressure_mode": "absolute", "pressure_unit": "kPa"},
    {"pressure_mode": "absolute", "pressure_unit": "torr"},
]
LOAD_REPS = [
    {"loading_basis": "molar", "loading_unit": "mmol", "f": 1.0},
    {"loading_basis": "molar", "loading_unit": "cm3(STP)", "f": 1.0 / 0.04461},
    {"loading_basis": "molar", "loading_unit": "mol", "f": 1e-3},
]
N2_PSAT_BAR = 1.0133  # only used to spread synthetic absolute pressures; exact value is irrelevant


def gen_world(rng):
    """-> world dict {"adsorbates": [...], "isos": [spec...], "roles": {...}}"""
    isos = []
    roles = {}
    mat_a = {"name": "VfSolidA", "density": round(rng.uniform(0.4, 2.2), 4), "molar_mass": round(rng.uniform(200, 2000), 2)}
    mat_b = "VfSolidB"

    def n2_iso(p_rel, l_mmol, material, branch="guess", meta=None):
        rep = dict(rng.choice(N2_REPS))
        lrep = dict(rng.choice(LOAD_REPS))
        f = lrep.pop("f")
        if rep["pressure_mode"] == "relative":
            p = list(p_rel)
        elif rep["pressure_mode"] == "relative%":
            p = [x * 100 for x in p_rel]
        else:
            scale = {"bar": N2_PSAT_BAR, "kPa": N2_PSAT_BAR * 100, "torr": N2_PSAT_BAR * 750.06}[rep["pressure_unit"]]
            p = [x * scale for x in p_rel]
        units = {"material_basis": "mass", "material_unit": rng.choice(["g", "g", "kg"]), "temperature_unit": "K"}
        mf = 1000.0 if units["material_unit"] == "kg" else 1.0
        units.update(rep)
        units.update(lrep)
        return {"kind": "point", "material": material, "adsorbate": rng.choice(["N2", "nitrogen"]), "temperature": 77.355,
                "units": units, "meta": meta or {}, "pressure": p, "loading": [x * f * mf for x in l_mmol], "branch": branch,
                "other": {}}

    if rng.random() < 0.85:
        p, l = _type_iv(rng, hysteresis=rng.random() < 0.8, micro=rng.random() < 0.7)
        roles["n2_main"] = len(isos)
        meta = {"user": "alice", "t_act": 150.5}
        if rng.random() < 0.4:
            # container-valued metadata, possibly with a missing (NaN) entry
            meta["activation_steps"] = [393.0, 423.0, float("nan")] if rng.random() < 0.6 else [393.0, 423.0]
            if rng.random() < 0.5:
                meta["instrument"] = {"name": "M-3", "drift": float("nan")}
        if rng.random() < 0.35:
            meta["cycle_temperatures__np"] = [350.5, 0.7, 423.25]     # built as numpy scalars (see worlds/build.py)
        isos.append(n2_iso(p, l, mat_a, meta=meta))
        if rng.random() < 0.7:
            p, l = _type_ii(rng)
            roles["n2_ref"] = len(isos)
            isos.append(n2_iso(p, l, mat_b, branch="ads"))
    gas = rng.choice(["CO2", "CO2", "C4H10"])
    temps = {"CO2": [273.15, 283.15, 298.15], "C4H10": [283.15, 298.15, 313.15]}[gas]
    if rng.random() < 0.9:
        q = rng.uniform(18e3, 32e3)
        st = rng.getstate()
        fam = []
        pu = rng.choice(["bar", "bar", "bar", "kPa"])
        mixed_units = rng.random() < 0.25
        st = rng.getstate()
        for T in temps[: rng.choice([2, 3, 3])]:
            rng.setstate(st)   # same sorbent parameters at every temperature
            p, l, par = _toth(rng, T, q_st=q)
            pu_i = pu
            if mixed_units and fam:
                pu_i = "kPa" if pu == "bar" else "bar"      # later members of the family in another unit than the first
            pf = {"bar": 1.0, "kPa": 100.0}[pu_i]
            spec = {"kind": "point", "material": mat_a, "adsorbate": gas, "temperature": T,
                    "units": {"pressure_mode": "absolute", "pressure_unit": pu_i, "loading_basis": "molar",
                              "loading_unit": "mmol", "material_basis": "mass", "material_unit": "g", "temperature_unit": "K"},
                    "meta": {}, "pressure": [x * pf for x in p], "loading": l, "branch": "ads", "other": {}}
            if not fam and rng.random() < 0.3:
                spec["meta"] = {"dosing_steps__np": [0.05, 0.1, 0.25]}
            if rng.random() < 0.6:
                spec["other"] = {"enthalpy": [round(par["q"] / 1000.0 * (1.0 + 0.6 * math.exp(-4.0 * x / par["nm"])), 6) for x in l]}
            fam.append(len(isos))
            isos.append(spec)
        rng.random()
        roles["family"] = fam
    if rng.random() < 0.75:
        # a second gas at a temperature shared with the family (IAST partner), or a user gas without backend
        if rng.random() < 0.7:
            T = temps[-1] if "family" in roles and len(roles["family"]) == len(temps) else temps[0]
            if "family" in roles:
                T = isos[roles["family"][-1]]["temperature"]
            p, l, _ = _toth(rng, T)
            roles["partner"] = len(isos)
            isos.append({"kind": "point", "material": mat_a, "adsorbate": rng.choice(["CH4", "methane"]), "temperature": T,
                         "units": {"pressure_mode": "absolute", "pressure_unit": "bar", "loading_basis": "molar",
                                   "loading_unit": "mmol", "material_basis": "mass", "material_unit": "g", "temperature_unit": "K"},
                         "meta": {}, "pressure": p, "loading": l, "branch": "ads", "other": {}})
        else:
            p, l, _ = _toth(rng, 300.0)
            roles["usergas"] = len(isos)
            isos.append({"kind": "point", "material": mat_b, "adsorbate": "VfNoBackend", "temperature": 300.0,
                         "units": {"pressure_mode": "absolute", "pressure_unit": "bar", "loading_basis": "molar",
                                   "loading_unit": "mmol", "material_basis": "mass", "material_unit": "g", "temperature_unit": "K"},
                         "meta": {"flag": True}, "pressure": p, "loading": l, "branch": "ads", "other": {}})
    if rng.random() < 0.3:
        # an uptake reported as a fraction / percentage of the material (no loading or material unit at all)
        T = isos[roles["family"][0]]["temperature"] if "family" in roles else temps[0]
        p, l, _ = _toth(rng, T)
        basis = rng.choice(["percent", "percent", "fraction"])
        roles["fractional"] = len(isos)
        isos.append({"kind": "point", "material": mat_a, "adsorbate": gas, "temperature": T,
                     "units": {"pressure_mode": "absolute", "pressure_unit": "bar", "loading_basis": basis, "loading_unit": None,
                               "material_basis": rng.choice(["mass", "mass", "molar", "volume"]), "material_unit": None,
                               "temperature_unit": "K"},
                     "meta": {}, "pressure": p, "loading": [x * (4.4 if basis == "percent" else 0.044) for x in l], "branch": "ads",
                     "other": {}})
    ads = []
    if "usergas" in roles:
        props = {"molar_mass": 58.5}
        r = rng.random()
        if r < 0.4:
            props.update({"saturation_pressure": 2.5e5, "liquid_density": 0.8})
        elif r < 0.7:
            # the documented alternative spellings of two property names
            props.update({"pressure_saturation": 2.5e5, "enthalpy_vaporisation": 21.5, "liquid_density": 0.8})
        ads.append(dict(name="VfNoBackend", **props))
        if rng.random() < 0.6:
            # a second isotherm of "the same" user gas whose Adsorbate is a distinct object with other constants
            src = isos[roles["usergas"]]
            twin = dict(src, adsorbate_object={"molar_mass": 58.5, "saturation_pressure": 4.0e5, "liquid_density": 0.9},
                        meta={"flag": False})
            twin["loading"] = [x * 1.1 for x in src["loading"]]
            roles["usergas_twin"] = len(isos)
            isos.append(twin)
    # model isotherms with explicit parameters, on the same gases (IAST with models, ModelIsotherm queries)
    if rng.random() < 0.6 and ("family" in roles or "partner" in roles):
        src = isos[roles["family"][-1]] if "family" in roles else isos[roles["partner"]]
        name = rng.choice(["Langmuir", "Langmuir", "DSLangmuir", "Henry", "Toth", "TemkinApprox", "JensenSeaton", "TSLangmuir",
                           "DR", "DA"])
        munit = rng.choice(["bar", "bar", "Pa"])
        ps = 1.0 if munit == "bar" else 1e-5      # affinity constants are per pressure unit
        j = rng.uniform(0.9, 1.1)                   # full-precision parameters, as a fit would produce them
        pars = {"Langmuir": {"K": 1.25 * j * ps, "n_m": 4.5 * j}, "DSLangmuir": {"K1": 2.5 * j * ps, "n_m1": 2.0, "K2": 0.25 * j * ps, "n_m2": 3.0 * j},
                "Henry": {"K": 0.75 * j * ps}, "Toth": {"K": 1.5 * j * ps, "n_m": 5.0 * j, "t": 0.8},
                # models whose inverse (pressure at loading) is solved numerically
                "TemkinApprox": {"n_m": 4.0 * j, "K": 1.5 * j * ps, "tht": -0.1},
                "JensenSeaton": {"K": 3.0 * j * ps, "a": 4.0 * j, "b": 0.5 * ps, "c": 1.0},
                "TSLangmuir": {"n_m1": 1.5 * j, "n_m2": 2.0, "n_m3": 1.0, "K1": 3.0 * j * ps, "K2": 0.5 * ps, "K3": 0.05 * ps},
                # potential-theory models (their thermal factor depends on the isotherm's temperature)
                "DR": {"n_m": 4.0 * j, "e": 6000.0 * j}, "DA": {"n_m": 4.0 * j, "e": 6000.0 * j, "m": 2.5}}[name]
        if name in ("DR", "DA"):
            munit = "bar"          # these models work in relative pressure 0..1; keep the numbers in that range
        roles["model"] = len(isos)
        isos.append({"kind": "model", "material": src["material"], "adsorbate": src["adsorbate"], "temperature": src["temperature"],
                     "units": dict(src["units"], pressure_unit=munit), "meta": {"branch": "ads"},
                     "model": {"name": name, "rmse": 0.01, "parameters": pars,
                               "pressure_range": [0.01 / ps, 10.0 / ps] if name not in ("DR", "DA") else [0.001, 0.95],
                               "loading_range": [0.01, 5.0] if name not in ("DR", "DA") else [0.01, 3.9]}})
        if name in ("DR", "DA"):
            isos[-1]["units"]["pressure_unit"] = "bar"
    if "model" in roles and "partner" in roles and rng.random() < 0.7:
        src = isos[roles["partner"]]
        roles["model_b"] = len(isos)
        isos.append({"kind": "model", "material": src["material"], "adsorbate": src["adsorbate"], "temperature": src["temperature"],
                     "units": dict(src["units"], pressure_unit="bar"), "meta": {"branch": "ads"},
                     "model": {"name": "Langmuir", "rmse": 0.01, "parameters": {"K": 0.4, "n_m": 3.25},
                               "pressure_range": [0.01, 10.0], "loading_range": [0.01, 3.0]}})
    if not isos:
        return gen_world(rng)
    return {"adsorbates": ads, "isos": isos, "roles": roles}
