/*
 * LD_PRELOAD shim: process death *inside* SQLite's commit (DESIGN 2.2, layer L3).
 *
 * Interposes the libc calls libsqlite3 uses to modify files.  Inert unless armed:
 * verif_arm(n, prefix) makes the process _exit(137) immediately before the n-th
 * intercepted call whose target path starts with `prefix` (the run's scratch
 * directory).  verif_count() returns how many such calls have been seen since
 * the last verif_reset(); verif_kind(i) the kind of the i-th (1-based).
 *
 * Kinds: 1 pwrite 2 write 3 fsync/fdatasync 4 unlink 5 ftruncate 6 open(O_CREAT) 7 rename
 */
#define _GNU_SOURCE
#include <dlfcn.h>
#include <fcntl.h>
#include <stdarg.h>
#include <stdio.h>
#include <string.h>
#include <sys/types.h>
#include <unistd.h>

#define MAXLOG 4096
static char g_prefix[512];
static size_t g_prefix_len = 0;
static long g_count = 0;
static long g_arm = 0; /* 0 = disarmed */
static unsigned char g_kinds[MAXLOG];
static int g_watch = 0;

static int path_matches(const char *p) {
    return g_watch && p && g_prefix_len && strncmp(p, g_prefix, g_prefix_len) == 0;
}

static int fd_matches(int fd) {
    char link[64], buf[600];
    ssize_t n;
    if (!g_watch || !g_prefix_len) return 0;
    snprintf(link, sizeof link, "/proc/self/fd/%d", fd);
    n = readlink(link, buf, sizeof buf - 1);
    if (n <= 0) return 0;
    buf[n] = 0;
    return strncmp(buf, g_prefix, g_prefix_len) == 0;
}

static void hit(int kind) {
    g_count++;
    if (g_count <= MAXLOG) g_kinds[g_count - 1] = (unsigned char)kind;
    if (g_arm && g_count == g_arm) _exit(137);
}

void verif_watch(const char *prefix) {
    strncpy(g_prefix, prefix, sizeof g_prefix - 1);
    g_prefix[sizeof g_prefix - 1] = 0;
    g_prefix_len = strlen(g_prefix);
    g_watch = 1;
    g_count = 0;
    g_arm = 0;
}
void verif_arm(long n) { g_arm = n; }
void verif_reset(void) { g_count = 0; g_arm = 0; }
void verif_unwatch(void) { g_watch = 0; g_arm = 0; }
long verif_count(void) { return g_count; }
int verif_kind(long i) { return (i >= 1 && i <= MAXLOG && i <= g_count) ? g_kinds[i - 1] : 0; }

#define REAL(name) static __typeof__(name) *real_##name; if (!real_##name) real_##name = dlsym(RTLD_NEXT, #name)

ssize_t pwrite(int fd, const void *buf, size_t n, off_t off) {
    REAL(pwrite);
    if (fd_matches(fd)) hit(1);
    return real_pwrite(fd, buf, n, off);
}
ssize_t pwrite64(int fd, const void *buf, size_t n, off64_t off) {
    REAL(pwrite64);
    if (fd_matches(fd)) hit(1);
    return real_pwrite64(fd, buf, n, off);
}
ssize_t write(int fd, const void *buf, size_t n) {
    REAL(write);
    if (g_watch && fd > 2 && fd_matches(fd)) hit(2);
    return real_write(fd, buf, n);
}
int fsync(int fd) {
    REAL(fsync);
    if (fd_matches(fd)) hit(3);
    return real_fsync(fd);
}
int fdatasync(int fd) {
    REAL(fdatasync);
    if (fd_matches(fd)) hit(3);
    return real_fdatasync(fd);
}
int unlink(const char *p) {
    REAL(unlink);
    if (path_matches(p)) hit(4);
    return real_unlink(p);
}
int ftruncate(int fd, off_t len) {
    REAL(ftruncate);
    if (fd_matches(fd)) hit(5);
    return real_ftruncate(fd, len);
}
int ftruncate64(int fd, off64_t len) {
    REAL(ftruncate64);
    if (fd_matches(fd)) hit(5);
    return real_ftruncate64(fd, len);
}
int open(const char *p, int flags, ...) {
    REAL(open);
    mode_t mode = 0;
    if (flags & (O_CREAT
#ifdef O_TMPFILE
                 | O_TMPFILE
#endif
                 )) {
        va_list ap; va_start(ap, flags); mode = va_arg(ap, mode_t); va_end(ap);
    }
    if ((flags & O_CREAT) && path_matches(p) && access(p, F_OK) != 0) hit(6);
    return real_open(p, flags, mode);
}
int open64(const char *p, int flags, ...) {
    REAL(open64);
    mode_t mode = 0;
    if (flags & (O_CREAT
#ifdef O_TMPFILE
                 | O_TMPFILE
#endif
                 )) {
        va_list ap; va_start(ap, flags); mode = va_arg(ap, mode_t); va_end(ap);
    }
    if ((flags & O_CREAT) && path_matches(p) && access(p, F_OK) != 0) hit(6);
    return real_open64(p, flags, mode);
}
int rename(const char *a, const char *b) {
    REAL(rename);
    if (path_matches(a) || path_matches(b)) hit(7);
    return real_rename(a, b);
}
