"""The `sqlite3.connect` seam (DESIGN 2.2).

install() must be called BEFORE `import pygaps`.  It replaces the stdlib
attribute `sqlite3.connect` by a wrapper that passes `factory=SimConnection`;
pyGAPS looks `sqlite3.connect` up at call time (and a refactor to
`from sqlite3 import connect` would still pick up the wrapper because the
attribute is replaced before pyGAPS is imported).

Every intercepted call on a pyGAPS connection is an *event* with a 1-based
ordinal: ("exec", head) for execute/executemany/executescript, ("commit",),
("rollback",), ("close",).  A fault plan
    {"event": e, "when": "before"|"after", "action": "raise:<ExcName>[:msg]" | "exit"}
fires at event e.  With no plan armed everything passes through.

The oracle's own connections use ORIG_CONNECT and are never counted.
"""
import os
import sqlite3

ORIG_CONNECT = sqlite3.connect

STATE = {
    "events": [],      # list of [kind, head]
    "plan": None,
    "fired": None,     # description of the fault that fired
    "record": True,
    "connections": 0,
    "fetches": [],     # list of [number of events so far, method]: rows read from a result, counted apart from events
}

_EXC = {
    "IntegrityError": sqlite3.IntegrityError,
    "InterfaceError": sqlite3.InterfaceError,
    "OperationalError": sqlite3.OperationalError,
    "DatabaseError": sqlite3.DatabaseError,
    "ProgrammingError": sqlite3.ProgrammingError,
    "DataError": sqlite3.DataError,
    "NotSupportedError": sqlite3.NotSupportedError,
    # what the sqlite3 module raises for a value it cannot bind or a statement it cannot take: not sqlite3.Error at all
    "OverflowError": OverflowError,
    "ValueError": ValueError,
    "TypeError": TypeError,
    "MemoryError": MemoryError,
    # a signal handler that ends the process in an orderly way (Ctrl-C, sys.exit() on SIGTERM): `finally` blocks run
    "KeyboardInterrupt": KeyboardInterrupt,
    "SystemExit": SystemExit,
}


def reset(plan=None):
    STATE["events"] = []
    STATE["plan"] = plan
    STATE["fired"] = None
    STATE["connections"] = 0
    STATE["fetches"] = []
    if plan is not None and "fetch" in plan:
        plan.setdefault("event", -1)
        plan.setdefault("when", "fetch")


def events():
    return STATE["events"]


def fired():
    return STATE["fired"]


def head_of(sql):
    """Value-free head of a statement: verb + target table."""
    if not isinstance(sql, str):
        return "?"
    toks = sql.replace("(", " ").replace('"', " ").replace("'", " ").replace("`", " ").replace(";", " ").split()
    if not toks:
        return "?"
    verb = toks[0].upper()
    up = [t.upper() for t in toks]
    tgt = ""
    try:
        if verb == "INSERT" and "INTO" in up:
            tgt = toks[up.index("INTO") + 1]
        elif verb in ("SELECT", "DELETE") and "FROM" in up:
            tgt = toks[up.index("FROM") + 1]
        elif verb == "UPDATE":
            tgt = toks[1]
        elif verb == "PRAGMA":
            tgt = toks[1] if len(toks) > 1 else ""
        elif verb in ("CREATE", "DROP"):
            tgt = " ".join(toks[1:4])
    except IndexError:
        tgt = ""
    return (verb + " " + tgt).strip()


def _gate(kind, head, when):
    """Called before (when='before': registers the event) and after each intercepted call."""
    st = STATE
    if when == "before":
        st["events"].append([kind, head])
    plan = st["plan"]
    if plan is None:
        return
    e = len(st["events"])
    if plan.get("sticky_kind"):
        if kind != plan["sticky_kind"] or when != plan["when"]:
            return
    elif plan["event"] != e or plan["when"] != when:
        return
    if plan.get("expect_kind") and plan["expect_kind"] != kind and not plan.get("sticky_kind"):
        # the operation took a different path than the golden run: report, do not fire
        st["fired"] = {"mismatch": [kind, head], "event": e}
        st["plan"] = None
        return
    if not plan.get("sticky"):
        st["plan"] = None  # single fault per trial
    else:
        # a condition that persists (the database stays locked by somebody else): fires at this and at every later
        # event of the same kind
        plan["event"] = e + 0
        plan["sticky_kind"] = kind
    st["fired"] = {"event": e, "when": when, "action": plan["action"], "kind": kind, "head": head}
    action = plan["action"]
    if action == "exit":
        os._exit(137)
    if action.startswith("raise:"):
        parts = action.split(":", 2)
        exc = _EXC[parts[1]]
        msg = parts[2] if len(parts) > 2 else "injected fault"
        raise exc(msg)
    raise RuntimeError("unknown fault action " + action)


def fetches():
    return STATE["fetches"]


def _fetch_gate(cur, name):
    """Reading rows from a result is where the storage layer reports an error for a SELECT (rows are produced lazily).
    Fetches are numbered apart from the events, so that event ordinals in stored replays keep their meaning."""
    st = STATE
    st["fetches"].append([len(st["events"]), name])
    plan = st["plan"]
    if plan is None or plan.get("fetch") != len(st["fetches"]):
        return
    st["plan"] = None
    st["fired"] = {"fetch": len(st["fetches"]), "when": "fetch", "action": plan["action"], "kind": "fetch", "head": name}
    action = plan["action"]
    if action == "exit":
        os._exit(137)
    # an error reported by sqlite3 leaves the statement reset: do the same
    try:
        sqlite3.Cursor.fetchall(cur)
    except sqlite3.Error:
        pass
    parts = action.split(":", 2)
    raise _EXC[parts[1]](parts[2] if len(parts) > 2 else "injected fault")


def _will_fire_after():
    plan = STATE["plan"]
    return plan is not None and plan["event"] == len(STATE["events"]) and plan["when"] == "after"


class SimCursor(sqlite3.Cursor):
    def _settle(self):
        """An error reported by sqlite3 for a statement leaves that statement reset.  A fault injected *after*
        a statement ran must leave the same situation: finish the statement (drain pending rows) so that no
        half-stepped SELECT keeps a read lock alive in a connection that is about to be closed."""
        if _will_fire_after() and STATE["plan"]["action"].startswith("raise:"):
            try:
                sqlite3.Cursor.fetchall(self)
            except sqlite3.Error:
                pass

    def fetchone(self):
        _fetch_gate(self, "fetchone")
        return super().fetchone()

    def fetchall(self):
        _fetch_gate(self, "fetchall")
        return super().fetchall()

    def fetchmany(self, *args, **kwargs):
        _fetch_gate(self, "fetchmany")
        return super().fetchmany(*args, **kwargs)

    def __next__(self):
        _fetch_gate(self, "next")
        return super().__next__()

    def execute(self, sql, *args, **kwargs):
        h = head_of(sql)
        _gate("exec", h, "before")
        r = super().execute(sql, *args, **kwargs)
        self._settle()
        _gate("exec", h, "after")
        return r

    def executemany(self, sql, *args, **kwargs):
        h = head_of(sql)
        _gate("exec", h, "before")
        r = super().executemany(sql, *args, **kwargs)
        self._settle()
        _gate("exec", h, "after")
        return r

    def executescript(self, sql, *args, **kwargs):
        h = "SCRIPT " + head_of(sql)
        _gate("exec", h, "before")
        r = super().executescript(sql, *args, **kwargs)
        _gate("exec", h, "after")
        return r


class SimConnection(sqlite3.Connection):
    def cursor(self, factory=None):
        return super().cursor(SimCursor)

    # Connection.execute / executemany / executescript create their cursor in C and never pass through cursor() or
    # Cursor.execute: they are statements like any other and are intercepted here.
    def execute(self, sql, *args, **kwargs):
        h = head_of(sql)
        _gate("exec", h, "before")
        cur = super().execute(sql, *args, **kwargs)
        if _will_fire_after() and STATE["plan"]["action"].startswith("raise:"):
            try:
                cur.fetchall()
            except sqlite3.Error:
                pass
        _gate("exec", h, "after")
        return cur

    def executemany(self, sql, *args, **kwargs):
        h = head_of(sql)
        _gate("exec", h, "before")
        cur = super().executemany(sql, *args, **kwargs)
        _gate("exec", h, "after")
        return cur

    def executescript(self, sql, *args, **kwargs):
        h = "SCRIPT " + head_of(sql)
        _gate("exec", h, "before")
        cur = super().executescript(sql, *args, **kwargs)
        _gate("exec", h, "after")
        return cur

    def commit(self):
        _gate("commit", "", "before")
        r = super().commit()
        _gate("commit", "", "after")
        return r

    def rollback(self):
        _gate("rollback", "", "before")
        r = super().rollback()
        _gate("rollback", "", "after")
        return r

    def close(self):
        _gate("close", "", "before")
        r = super().close()
        _gate("close", "", "after")
        return r


REDIRECT = {}   # realpath of a file that must never be opened -> scratch copy (the packaged default.db)


def sim_connect(database, *args, **kwargs):
    try:
        database = REDIRECT.get(os.path.realpath(os.fspath(database)), database)
    except TypeError:
        pass
    kwargs.setdefault("factory", SimConnection)
    STATE["connections"] += 1
    return ORIG_CONNECT(database, *args, **kwargs)


_installed = False


def install():
    global _installed
    if _installed:
        return
    if "pygaps" in __import__("sys").modules:
        raise RuntimeError("sqlseam.install() must run before pygaps is imported")
    sqlite3.connect = sim_connect
    _installed = True
