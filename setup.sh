#!/bin/sh
# Offline setup: build the LD_PRELOAD crash shim (C09 layer L3). Pure-Python parts need no build.
cd "$(dirname "$0")" || exit 1
mkdir -p build out/replays evidence
if command -v gcc >/dev/null 2>&1; then
  gcc -O2 -shared -fPIC -o build/crashshim.so sim/seams/native/crashshim.c -ldl || echo "shim build failed: L3 layer will be off"
else
  echo "no gcc: L3 layer will be off"
fi
/venv/bin/python -c "import pygaps, pandas, numpy, scipy, CoolProp" || exit 1
exit 0
